"""C program enumerator (DESIGN 3.1 `cgen`): families of tiny C functions as `cases` for vf.oracles.gccrun.

Every file-scope identifier carries '@' (per-case suffix).  Families are deterministic lists, simplest first.
  E1  a op b            every binary operator x every ordered pair of the 10 integer types, returned as long long
  E2  op a / (T)a       unary operators and every cast pair
  E3  a op= b, ++/--    compound assignment (result in T1) and pre/post increment
  E4  depth 2           ((a op1 b) op2 c) and (a op1 (b op2 c)) over a 6-type sub-alphabet (slice by root operator)
  S   statements        control-flow skeletons (the vf.gen.ccorpus corpus + templates x body menu)
  A   aggregates        struct fields of every type, struct copy/by value, arrays, pointer arithmetic, sizeof, bit-fields
  F   floating point    float/double arithmetic and int<->float conversions
"""
import itertools
from vf.oracles.gccrun import INT_TYPES, V, is_float

BINOPS = ["+", "-", "*", "/", "%", "&", "|", "^", "<<", ">>", "<", ">", "<=", ">=", "==", "!=", "&&", "||"]
ASSIGNOPS = ["+=", "-=", "*=", "/=", "%=", "&=", "|=", "^=", "<<=", ">>="]
SIX = ["signed char", "unsigned short", "int", "unsigned", "long", "unsigned long"]


def vectors(params, k=7, cap=49):
    cols = [V(t, k) for t in params]
    vs = [list(v) for v in itertools.product(*cols)]
    if len(vs) > cap:
        step = len(vs) / cap
        vs = [vs[int(i * step)] for i in range(cap)]
    return vs


def case(src, ret, params, fam, feat, globals_=(), k=7, cap=49, restore=()):
    return {"src": src, "fname": "f@", "ret": ret, "params": list(params), "vectors": vectors(params, k, cap), "globals": list(globals_),
            "restore": list(restore), "fam": fam, "feat": feat}


def e1(types=INT_TYPES, ops=BINOPS):
    for op in ops:
        for t1 in types:
            for t2 in types:
                yield case("long long f@(%s a, %s b){ return a %s b; }" % (t1, t2, op), "long long", [t1, t2], "E1", "%s/%s/%s" % (op, t1, t2))


def e2(types=INT_TYPES):
    for op in ["-", "~", "!", "+"]:
        for t in types:
            yield case("long long f@(%s a){ return %sa; }" % (t, op), "long long", [t], "E2", "unary%s/%s" % (op, t))
    for t1 in types:
        for t2 in types:
            yield case("%s f@(%s a){ return (%s)a; }" % (t2, t1, t2), t2, [t1], "E2", "cast/%s->%s" % (t1, t2), k=7)
            if t1 != t2:
                yield case("%s f@(%s a){ %s r = a; return r; }" % (t2, t1, t2), t2, [t1], "E2", "assign-conv/%s->%s" % (t1, t2))


def e3(types=INT_TYPES):
    for op in ASSIGNOPS:
        for t1 in types:
            for t2 in types:
                yield case("%s f@(%s a, %s b){ a %s b; return a; }" % (t1, t1, t2, op), t1, [t1, t2], "E3", "%s/%s/%s" % (op, t1, t2))
    for t in types:
        yield case("long long f@(%s a){ %s r = a++; return (long long)r * 3 + a; }" % (t, t), "long long", [t], "E3", "post++/" + t)
        yield case("long long f@(%s a){ %s r = ++a; return (long long)r * 3 + a; }" % (t, t), "long long", [t], "E3", "pre++/" + t)
        yield case("long long f@(%s a){ %s r = a--; return (long long)r * 3 + a; }" % (t, t), "long long", [t], "E3", "post--/" + t)
        yield case("long long f@(%s a){ %s r = --a; return (long long)r * 3 + a; }" % (t, t), "long long", [t], "E3", "pre--/" + t)
    for t in types:
        yield case("long long f@(%s a, %s b){ return a ? b : -b; }" % (t, t), "long long", [t, t], "E3", "ternary/" + t)
        yield case("long long f@(%s a, int b){ return (a, b); }" % t, "long long", [t, "int"], "E3", "comma/" + t)
        yield case("long long f@(%s a, int b){ return b ? a : 1u; }" % t, "long long", [t, "int"], "E3", "ternary-mixed/" + t)


def e4(root_ops, types=SIX, inner_ops=("+", "-", "*", "/", "%", "&", "|", "^", "<<", ">>", "<", "==")):
    for op2 in root_ops:
        for op1 in inner_ops:
            for t1, t2, t3 in itertools.product(types, repeat=3):
                yield case("long long f@(%s a, %s b, %s c){ return (a %s b) %s c; }" % (t1, t2, t3, op1, op2), "long long", [t1, t2, t3],
                           "E4", "(%s)%s/%s/%s/%s" % (op1, op2, t1, t2, t3), k=3, cap=27)
                yield case("long long f@(%s a, %s b, %s c){ return a %s (b %s c); }" % (t1, t2, t3, op2, op1), "long long", [t1, t2, t3],
                           "E4", "%s(%s)/%s/%s/%s" % (op2, op1, t1, t2, t3), k=3, cap=27)


def s_corpus():
    from vf.gen import ccorpus
    import re
    for name, src in ccorpus.CORPUS:
        # suffix every file-scope identifier: functions and globals
        idents = set(re.findall(r"\b(?:int|void|struct S)\s*\*?\s*([A-Za-z_]\w*)\s*(?=\(|=|;|\[)", src.split("{")[0] + ";")) if False else set()
        # simple and robust: collect names declared at file scope by a tiny scan
        depth = 0
        tokens = re.findall(r"[A-Za-z_]\w*|\S", src)
        names = set()
        prev = None
        for i, tk in enumerate(tokens):
            if tk == "{":
                depth += 1
            elif tk == "}":
                depth -= 1
            elif depth == 0 and re.match(r"[A-Za-z_]\w*$", tk) and i + 1 < len(tokens) and tokens[i + 1] in ("(", "=", ";", "[") \
                    and tk not in ("int", "void", "struct", "unsigned", "char", "long", "short", "S", "ext", "extl") and prev not in ("struct",):
                names.add(tk)
            prev = tk
        s2 = src
        for n in sorted(names, key=len, reverse=True):
            s2 = re.sub(r"\b%s\b" % n, n + "@", s2)
        s2 = s2.replace("struct S", "struct S@")
        nparams = src.split("int f(")[1].split(")")[0].count("int")
        gl = [n + "@" for n in names if re.search(r"\bint\s+%s\s*(=|;|\[)" % n, src.split("int f(")[0])]
        yield case(s2, "int", ["int"] * nparams, "S", "corpus/" + name, globals_=gl, k=7, cap=49)


S_TEMPLATES = [
    ("if", "int g@; int f@(int a,int b){ int x=0,y=1; if(a<b){ %B } return x*7+y+g@; }"),
    ("if-else", "int g@; int f@(int a,int b){ int x=0,y=1; if(a==b){ %B } else { %C } return x*7+y+g@; }"),
    ("while", "int g@; int f@(int a,int b){ int x=0,y=1; int n=a&3; while(n>0){ %B n--; } return x*7+y+g@; }"),
    ("do", "int g@; int f@(int a,int b){ int x=0,y=1; int n=a&3; do { %B n--; } while(n>0); return x*7+y+g@; }"),
    ("for", "int g@; int f@(int a,int b){ int x=0,y=1; for(int i=0;i<(b&3);i++){ %B } return x*7+y+g@; }"),
    ("for-break", "int g@; int f@(int a,int b){ int x=0,y=1; for(int i=0;i<5;i++){ if(i==(a&7)) break; %B } return x*7+y+g@; }"),
    ("for-continue", "int g@; int f@(int a,int b){ int x=0,y=1; for(int i=0;i<5;i++){ if(i==(a&3)) continue; %B } return x*7+y+g@; }"),
    ("while-continue", "int g@; int f@(int a,int b){ int x=0,y=1; int n=4; while(n-->0){ if(n==(a&3)) continue; %B } return x*7+y+g@; }"),
    ("do-continue", "int g@; int f@(int a,int b){ int x=0,y=1; int n=(a&3)+1; do { n--; if(n==(b&3)) continue; %B } while(n>0); return x*7+y+g@; }"),
    ("do-continue-once", "int g@; int f@(int a,int b){ int x=0,y=1; do { x++; if(x<(a&7)) continue; %B } while(0); return x*7+y+g@; }"),
    ("while-break-nested", "int g@; int f@(int a,int b){ int x=0,y=1; int n=4; while(n>0){ int m=3; n--; while(m>0){ m--; if(m==(a&3)) break; if(n==(b&3)) continue; %B } } return x*7+y+g@; }"),
    ("switch-in-loop-continue", "int g@; int f@(int a,int b){ int x=0,y=1; for(int i=0;i<4;i++){ switch((a+i)&3){ case 0: continue; case 1: %B break; default: y+=i; } x+=3; } return x*7+y+g@; }"),
    ("switch", "int g@; int f@(int a,int b){ int x=0,y=1; switch(a&3){ case 0: %B break; case 1: %C case 2: x+=100; break; default: y=-y; } return x*7+y+g@; }"),
    ("switch-nodefault", "int g@; int f@(int a,int b){ int x=0,y=1; switch(a){ case -1: %B break; case 2147483647: %C break; case 0: x=9; } return x*7+y+g@; }"),
    ("goto-fwd", "int g@; int f@(int a,int b){ int x=0,y=1; if(a>b) goto skip; %B skip: %C return x*7+y+g@; }"),
    ("goto-back", "int g@; int f@(int a,int b){ int x=0,y=1; int n=a&3; again: %B if(n-->0) goto again; return x*7+y+g@; }"),
    ("and", "int g@; int f@(int a,int b){ int x=0,y=1; if(a>0 && ext(b)>0){ %B } return x*7+y+g@; }"),
    ("or", "int g@; int f@(int a,int b){ int x=0,y=1; if(a>0 || ext(b)>0){ %B } return x*7+y+g@; }"),
    ("and-value", "int g@; int f@(int a,int b){ int x=0,y=1; x = (a!=0) && (ext(b)!=1); %B return x*7+y+g@; }"),
    ("ternary-side", "int g@; int f@(int a,int b){ int x=0,y=1; y = a<b ? ext(a) : ext(b)+1; %B return x*7+y+g@; }"),
    ("nested-if", "int g@; int f@(int a,int b){ int x=0,y=1; if(a>0){ if(b>0){ %B } else { %C } } else { x=5; } return x*7+y+g@; }"),
    ("loop-in-if", "int g@; int f@(int a,int b){ int x=0,y=1; if(a&1){ for(int i=0;i<(b&3);i++){ %B } } else { %C } return x*7+y+g@; }"),
    ("if-in-loop", "int g@; int f@(int a,int b){ int x=0,y=1; for(int i=0;i<3;i++){ if((a>>i)&1){ %B } else { %C } } return x*7+y+g@; }"),
    ("call-local", "int g@; int h@(int p,int q){ g@+=p; return p*2-q; } int f@(int a,int b){ int x=0,y=1; x=h@(a&15,b&15); %B y=h@(y&15,x&15); return x*7+y+g@; }"),
    ("recursion", "int g@; int r@(int n,int acc){ if(n<=0) return acc; g@++; return r@(n-1, acc+n); } int f@(int a,int b){ int x=0,y=1; x=r@(a&7,b&7); %B return x*7+y+g@; }"),
]
S_BODIES = ["x=x+a;", "y=x; x=x+1+(a&1);", "y=y*3+b;", "g@=g@+x+1;", "x=ext(y&7); y++;", "x^=b; y-=a&3;"]


def s_templates(depth2=False):
    for name, tpl in S_TEMPLATES:
        two = "%C" in tpl
        for bi, B in enumerate(S_BODIES):
            cs = [S_BODIES[(bi + 1) % len(S_BODIES)]] if not depth2 else S_BODIES
            for C in (cs if two else [""]):
                src = tpl.replace("%B", B).replace("%C", C)
                yield case(src, "int", ["int", "int"], "S", "tpl/" + name, globals_=["g@"])


def aggregates(types=INT_TYPES):
    for t in types:
        yield case("struct S@ { char c; %s v; short s; }; long long f@(%s a, int b){ struct S@ s; s.c=1; s.v=a; s.s=(short)b; return (long long)s.v + s.c + s.s; }" % (t, t),
                   "long long", [t, "int"], "A", "struct-field/" + t)
        yield case("struct S@ { %s v; char c; }; struct S@ gs@[2]; long long f@(%s a, int b){ gs@[b&1].v=a; gs@[b&1].c=7; return (long long)gs@[b&1].v + gs@[1-(b&1)].c; }" % (t, t),
                   "long long", [t, "int"], "A", "struct-array-global/" + t, restore=["gs@"])
        yield case("%s t@[4]; long long f@(%s a, int b){ t@[b&3]=a; t@[(b+1)&3]=(%s)(a+1); return (long long)t@[0]+t@[1]+t@[2]+t@[3]; }" % (t, t, t),
                   "long long", [t, "int"], "A", "array-global/" + t, globals_=["t@"])
        yield case("long long f@(%s a, int b){ %s t[3]; %s *p=t; p[0]=a; *(p+1)=(%s)b; p+=2; *p=(%s)(a-b); return (long long)t[0]+t[1]+t[2]+(p-t); }" % (t, t, t, t, t),
                   "long long", [t, "int"], "A", "pointer-arith/" + t)
        yield case("long long f@(%s a, int b){ %s x=a; %s *p=&x; *p=(%s)(*p+1); return x; }" % (t, t, t, t), "long long", [t, "int"], "A", "pointer-deref/" + t)
        yield case("unsigned long f@(%s a){ return sizeof(a) + 100*sizeof(%s[3]); }" % (t, t), "unsigned long", [t], "A", "sizeof/" + t)
    yield case("struct P@ {int x; int y;}; struct P@ mk@(int a,int b){ struct P@ p; p.x=a; p.y=b; return p; } int f@(int a,int b){ struct P@ q = mk@(a,b); struct P@ r = q; r.x++; return q.x*3+q.y+r.x; }",
               "int", ["int", "int"], "A", "struct-by-value")
    yield case("struct P@ {int x; long y; char z;}; long sum@(struct P@ p){ return p.x+p.y+p.z; } long f@(int a,int b){ struct P@ p; p.x=a; p.y=b; p.z=3; return sum@(p); }",
               "long", ["int", "int"], "A", "struct-arg")
    yield case("struct B@ {unsigned a:3; unsigned b:5; int c:4;}; struct B@ bs@; int f@(int a,int b){ bs@.a=a; bs@.b=b; bs@.c=a; return bs@.a + bs@.b*10 + bs@.c*1000; }",
               "int", ["int", "int"], "A", "bitfield", restore=["bs@"])
    yield case("union U@ {int i; unsigned char c[4];}; int f@(int a,int b){ union U@ u; u.i=a; u.c[1]=(unsigned char)b; return u.i; }", "int", ["int", "int"], "A", "union")
    yield case("struct S@ {char a; int b; short c;}; unsigned long f@(int a){ return sizeof(struct S@); }", "unsigned long", ["int"], "A", "sizeof-struct-tail-padding")
    yield case("struct S@ {char a; long b;}; unsigned long f@(int a){ struct S@ t[2]; return (char*)&t[1]-(char*)&t[0]; }", "unsigned long", ["int"], "A", "struct-stride")
    yield case("int m@[3][4]; int f@(int a,int b){ m@[a&1][b&3]=a; m@[2][3]=b; return m@[a&1][b&3]+m@[2][3]+(int)sizeof(m@[0]); }", "int", ["int", "int"], "A", "array-2d", globals_=["m@"])
    yield case("enum E@ {A@, B@=5, C@}; int f@(int a,int b){ enum E@ e = a&1 ? B@ : C@; return e + A@; }", "int", ["int", "int"], "A", "enum")
    yield case("int f@(int a,int b){ const char *s=\"hello\"; return s[a&3] + s[5]; }", "int", ["int", "int"], "A", "string-literal")
    yield case("static int cnt@; int f@(int a,int b){ static int k=3; k+=a&1; cnt@++; return k+cnt@; }", "int", ["int", "int"], "A", "static-local-once", k=1, cap=1)
    yield case("int f@(int a,int b){ int t[4]={1,2}; int u[]={a,b,a+b}; return t[0]+t[1]+t[2]+t[3]+u[2]+(int)(sizeof(u)/sizeof(u[0])); }", "int", ["int", "int"], "A", "array-init")
    yield case("struct S@ {int a; char b; long c;}; int f@(int a,int b){ struct S@ s = {5}; int u[5] = {[3]=7}; return s.a+s.b+(int)s.c+u[0]+u[3]+u[4]+a; }", "int", ["int", "int"], "A", "partial-init")
    yield case("union U@ {char c[5]; int i;}; unsigned long f@(int a){ return sizeof(union U@); }", "unsigned long", ["int"], "A", "sizeof-union-tail-padding")
    yield case("int t@[4]; int k@; int nx@(void){ return k@++ & 3; } int f@(int a,int b){ k@=a&3; t@[nx@()]++; t@[nx@()]--; ++t@[nx@()]; t@[k@++ & 3] += 5; return t@[0]+2*t@[1]+3*t@[2]+4*t@[3]+100*k@; }", "int", ["int", "int"], "A", "incdec-side-effect-lvalue", globals_=["t@"], restore=["k@"])
    yield case("int f@(int a,int b){ int t[4]={0,0,0,0}; int i=a&1; t[i++]++; t[i++]+=2; return t[0]+10*t[1]+100*t[2]+1000*t[3]+10000*i; }", "int", ["int", "int"], "A", "incdec-nested")
    yield case("long long f@(int a,int b){ return (a < 2147483647) + 2*(a / 2147483647) + 4*((-2147483647 - 1) < a) + 8*(a % 0x7fffffff == a) + 16*(long long)(-2147483647 - 1); }", "long long", ["int", "int"], "A", "literal-int-max")
    yield case("long long f@(int a,int b){ return (a < 4294967295) + 2*(a < 2147483648) + 4*(a < 0xffffffff) + 8*(a < 0x80000000) + 16*(a < 9223372036854775807) + 32*(sizeof(2147483648) == 8) + 64*(sizeof(0x80000000) == 4); }", "long long", ["int", "int"], "A", "literal-types")
    yield case("typedef int (*fp@)(int); int inc@(int x){return x+1;} int dbl@(int x){return x*2;} int f@(int a,int b){ fp@ t[2]={inc@,dbl@}; return t[a&1](b&255); }",
               "int", ["int", "int"], "A", "function-pointer-table")


def floats():
    for t in ("float", "double"):
        for op in ["+", "-", "*", "/"]:
            yield case("%s f@(%s a, %s b){ return a %s b; }" % (t, t, t, op), t, [t, t], "F", "%s/%s" % (op, t))
        for op in ["<", "<=", "==", "!=", ">", ">="]:
            yield case("int f@(%s a, %s b){ return a %s b; }" % (t, t, op), "int", [t, t], "F", "%s/%s" % (op, t))
        for it in INT_TYPES:
            yield case("%s f@(%s a){ return (%s)a; }" % (t, it, t), t, [it], "F", "int->float/%s->%s" % (it, t))
            yield case("%s f@(%s a){ return (%s)a; }" % (it, t, it), it, [t], "F", "float->int/%s->%s" % (t, it))
        yield case("%s f@(%s a, int b){ return a * b + 0.5; }" % (t, t), t, [t, "int"], "F", "mixed/" + t)
        yield case("%s f@(%s a){ return -a; }" % (t, t), t, [t], "F", "neg/" + t)
    for t in ("float", "double"):
        yield case("int f@(%s a, int b){ if (a) return 1; return 2; }" % t, "int", [t, "int"], "F", "cond-if/" + t)
        yield case("int f@(%s a, int b){ return (a ? 5 : 7) + (!a) * 10 + (a && b) * 100 + (a || b) * 1000; }" % t, "int", [t, "int"], "F", "cond-ops/" + t)
        yield case("int f@(%s a, int b){ int n = 0; while (a) { a = a - a; n++; } return n; }" % t, "int", [t, "int"], "F", "cond-while/" + t)
    # the converted operand is used again afterwards (a conversion sequence must not change its source)
    for it in INT_TYPES:
        for t in ("float", "double"):
            yield case("%s f@(%s a, int b){ %s d = (%s)a; %s r = (%s)(a >> 1); return d + r + (%s)(a & 7); }" % (t, it, t, t, t, t, t), t, [it, "int"], "F",
                       "int->float/source-used-again/%s->%s" % (it, t))
            yield case("long long f@(%s a, int b){ long long n = (long long)a; %s h = a / 2; return n + (long long)h + (long long)(a + h); }" % (t, t), "long long", [t, "int"], "F",
                       "float->int/source-used-again/%s" % t)
    # initialised arrays of structs whose last member leaves tail padding, and nested ones
    yield case("struct S@ { int i; char c; }; struct S@ ga@[3] = { {1, 2}, {3, 4}, {5} }; int f@(int a, int b){ return ga@[a & 1].i * 100 + ga@[b & 1].c * 10 + ga@[2].i + ga@[2].c + (int)sizeof(ga@); }",
               "int", ["int", "int"], "A", "struct-array-initialised/tail-padding", globals_=["ga@"])
    yield case("struct S@ { unsigned x : 3; char c; }; struct O@ { struct S@ s[2]; short t; }; struct O@ go@[2] = { { { {5, 6}, {7, 8} }, 9 }, { { {1, 2} }, 3 } }; "
               "int f@(int a, int b){ return go@[a & 1].s[b & 1].x * 1000 + go@[a & 1].s[b & 1].c * 10 + go@[b & 1].t; }", "int", ["int", "int"], "A",
               "struct-array-initialised/nested-bitfield", globals_=["go@"])
    # memory operands at displacements around the 8 bit limit (base + 127 / 128 / 129, base - 128 / - 129)
    yield case("struct S@ { char pad[124]; int w; int x; int y; }; struct S@ gb@; int f@(int a, int b){ struct S@ *p = &gb@; p->pad[123] = (char)a; p->w = a - b; p->x = b; p->y = a + b; "
               "return p->x * 3 + p->y + p->pad[123] + p->w * 7; }", "int", ["int", "int"], "A", "struct-field-offset-124-128-132", restore=["gb@"])
    yield case("int arr@[80]; int f@(int a, int b){ int *q = arr@ + 40; q[32] = a; q[31] = b; q[-32] = a - b; q[-33] = a + b; return q[32] - q[-32] * 3 + q[31] * 5 + q[-33] * 7 + arr@[8]; }",
               "int", ["int", "int"], "A", "pointer-index-plus-minus-128", restore=["arr@"])
    yield case("double f@(float a){ return a; }", "double", ["float"], "F", "float->double")
    yield case("float f@(double a){ return (float)a; }", "float", ["double"], "F", "double->float")
    yield case("int f@(double a){ return (int)(a*100.7); }", "int", ["double"], "F", "float->int/truncation")
