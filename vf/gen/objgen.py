"""objgen - bounded enumerators of ppci object files and linker layouts.

Shared by C12 (placement), C14 (save/load), and meant for C11 / C17.

Everything enumerated is a *description*: plain dict / list / int / str values
(JSON-able, usable directly as a replay witness).  `build(desc)` turns an object
description into a real `ppci.binutils.objectfile.ObjectFile`; `build_layout` /
`layout_text` turn a layout description into a `Layout` object / the text
accepted by `Layout.load`.  ppci is imported only inside functions.

API
===

Descriptions (constructors return plain dicts):
    sec(name, size=0, align=4, fill="tag", data=None, address=0)
        fill: "tag"  bytes unique per (object tag, section index): ((tag*3+j+1)<<4 | i&15) -
                     never zero, distinct between all leaves of a scenario as long as
                     tag < 5, j < 3, size <= 16 (so a leaf can be found again in the output)
              "ramp" i & 0xff     "zero" 0x00     "ff" 0xff
        data: hex string, overrides size/fill (for instruction bytes in C11)
    sym(name, binding="global", section=None, offset=None, typ="object", size=0, id=None)
        offset None  -> undefined symbol (value None, section None)
        id None      -> position in the symbol list
    rel(type, sym, section, offset, addend=0)      sym = symbol *id*
    img(name, address, sections)                   sections = list of section names, in image order
    obj(sections, symbols=(), relocs=(), images=(), entry=None, arch="arm", tag=0)
    mem(name, location, size, inputs)              inputs = [["SECTION", n] | ["SECTIONDATA", n] |
                                                             ["ALIGN", k] | ["DEFINESYMBOL", n]]
    layout(memories, entry=None)

Builders:
    build(odesc) -> ObjectFile            section_bytes(tag, j, size, fill) -> bytes
    build_layout(ldesc) -> Layout         layout_text(ldesc) -> str
    parse_layout(text) -> Layout          describe_layout(Layout) -> ldesc   (inverse of build_layout)

Reference placement model (NOT an oracle; used to pick boundary memory sizes and to
explain failures):
    merged_sections(odescs) -> {name: {"size", "align", "leaves": [(obj index, sec index, offset)]}}
    place(odescs, ldesc) -> {"sections": {name: address}, "totals": [bytes used per memory],
                             "payload": [sum of section sizes per memory]}
    with_sizes(ldesc, sizes) -> copy of ldesc with the given memory sizes

Enumerators (deterministic lists, simplest first; every one has a closed-form count that
`selfcheck()` compares with what was produced):
    shapes(sizes=SIZES, aligns=ALIGNS)                   (size, align) pairs
    std_symbols(tag, sections)                           marker symbols for a list of sec() dicts
    merge_sets(n, shp, names=("code",), arch="arm")      n objects x one shape per named section
    role_sets(nobj, names=("x",), roles=ROLES)           who defines / references a symbol name
    layouts(items, max_len, max_mems=2, ...)             every ordering of distinct items, every split
    size_variants(odescs, ldesc)                         memory sizes at total-1 / total / total+1
    c14_objects(tier)                                    field-sweep objects for save/load
    c14_product(tier)                                    full product of small per-field alphabets (field interactions)
"""
import itertools

SIZES = (0, 1, 3, 4, 5, 8, 16)
ALIGNS = (1, 2, 4, 8)
SECTION_NAMES = ("code", "data", "extra")
ROLES = ("absent", "local", "global", "undef")
BIG = 0x1000  # "large enough" memory size


# ------------------------------------------------------------------ descriptions

def sec(name, size=0, align=4, fill="tag", data=None, address=0):
    d = {"name": name, "size": size, "align": align, "fill": fill}
    if data is not None:
        d["data"] = data
        d["size"] = len(data) // 2
    if address:
        d["address"] = address
    return d


def sym(name, binding="global", section=None, offset=None, typ="object", size=0, id=None):
    d = {"name": name, "binding": binding, "section": section, "offset": offset, "typ": typ, "size": size}
    if id is not None:
        d["id"] = id
    return d


def rel(type, sym, section, offset, addend=0):
    return {"type": type, "sym": sym, "section": section, "offset": offset, "addend": addend}


def img(name, address, sections):
    return {"name": name, "address": address, "sections": list(sections)}


def obj(sections, symbols=(), relocs=(), images=(), entry=None, arch="arm", tag=0):
    return {"arch": arch, "tag": tag, "sections": list(sections), "symbols": list(symbols),
            "relocs": list(relocs), "images": list(images), "entry": entry}


def mem(name, location, size, inputs):
    return {"name": name, "location": location, "size": size, "inputs": [list(i) for i in inputs]}


def layout(memories, entry=None):
    return {"memories": list(memories), "entry": entry}


# ------------------------------------------------------------------ builders

def section_bytes(tag, j, size, fill="tag"):
    if fill == "tag":
        lead = (tag * 3 + j + 1) & 0xF
        return bytes(((lead << 4) | (i & 15)) for i in range(size))
    if fill == "ramp":
        return bytes((i & 0xFF) for i in range(size))
    if fill == "zero":
        return bytes(size)
    if fill == "ff":
        return b"\xff" * size
    raise ValueError(fill)


def leaf_bytes(odesc, j):
    s = odesc["sections"][j]
    if s.get("data") is not None:
        return bytes.fromhex(s["data"])
    return section_bytes(odesc.get("tag", 0), j, s["size"], s.get("fill", "tag"))


def symbol_id(odesc, i):
    s = odesc["symbols"][i]
    return s["id"] if s.get("id") is not None else i


def build(odesc):
    """Object description -> ObjectFile, using only the public construction API."""
    from ppci.api import get_arch
    from ppci.binutils.objectfile import ObjectFile, Image, RelocationEntry, Section
    o = ObjectFile(get_arch(odesc.get("arch", "arm")))
    for j, s in enumerate(odesc["sections"]):
        so = Section(s["name"])
        so.alignment = s.get("align", 4)
        so.address = s.get("address", 0)
        so.add_data(leaf_bytes(odesc, j))
        o.add_section(so)
    for i, s in enumerate(odesc.get("symbols", ())):
        if s["offset"] is None:
            o.add_symbol(symbol_id(odesc, i), s["name"], s["binding"], None, None, s.get("typ", "object"), s.get("size", 0))
        else:
            o.add_symbol(symbol_id(odesc, i), s["name"], s["binding"], s["offset"], s["section"], s.get("typ", "object"), s.get("size", 0))
    for r in odesc.get("relocs", ()):
        o.add_relocation(RelocationEntry(r["type"], r["sym"], r["section"], r["offset"], r.get("addend", 0)))
    for im in odesc.get("images", ()):
        io_ = Image(im["name"], im["address"])
        for n in im["sections"]:
            io_.add_section(o.get_section(n))
        o.add_image(io_)
    if odesc.get("entry") is not None:
        o.entry_symbol_id = odesc["entry"]
    return o


def build_layout(ldesc):
    from ppci.binutils import layout as L
    lay = L.Layout()
    for m in ldesc["memories"]:
        mo = L.Memory(m["name"])
        mo.location = m["location"]
        mo.size = m["size"]
        for kind, arg in m["inputs"]:
            if kind == "SECTION":
                mo.add_input(L.Section(arg))
            elif kind == "SECTIONDATA":
                mo.add_input(L.SectionData(arg))
            elif kind == "ALIGN":
                mo.add_input(L.Align(arg))
            elif kind == "DEFINESYMBOL":
                mo.add_input(L.SymbolDefinition(arg))
            else:
                raise ValueError(kind)
        lay.add_memory(mo)
    if ldesc.get("entry"):
        lay.entry = L.EntrySymbol(ldesc["entry"])
    return lay


def layout_text(ldesc, hexnum=True):
    """Text for Layout.load.  Names must be identifiers (the layout lexer has no quoting)."""
    num = (lambda v: "0x%x" % v) if hexnum else (lambda v: "%d" % v)
    out = []
    if ldesc.get("entry"):
        out.append("ENTRY(%s)" % ldesc["entry"])
    for m in ldesc["memories"]:
        out.append("MEMORY %s LOCATION=%s SIZE=%s {" % (m["name"], num(m["location"]), num(m["size"])))
        for kind, arg in m["inputs"]:
            out.append("  %s(%s)" % (kind, arg))
        out.append("}")
    return "\n".join(out) + "\n"


def parse_layout(text):
    import io
    from ppci.binutils.layout import Layout
    return Layout.load(io.StringIO(text))


def describe_layout(lay):
    """Layout object -> description (structural read-out, independent of Layout.__eq__)."""
    from ppci.binutils import layout as L
    mems = []
    for m in lay.memories:
        ins = []
        for i in m.inputs:
            if isinstance(i, L.SectionData):
                ins.append(["SECTIONDATA", i.section_name])
            elif isinstance(i, L.Section):
                ins.append(["SECTION", i.section_name])
            elif isinstance(i, L.Align):
                ins.append(["ALIGN", i.alignment])
            elif isinstance(i, L.SymbolDefinition):
                ins.append(["DEFINESYMBOL", i.symbol_name])
            else:
                ins.append(["?", repr(i)])
        mems.append({"name": m.name, "location": m.location, "size": m.size, "inputs": ins})
    return {"memories": mems, "entry": lay.entry.symbol_name if lay.entry else None}


# ------------------------------------------------------------------ placement model

def _up(v, a):
    return (v + a - 1) // a * a if a > 1 else v


def merged_sections(odescs, min_align=4):
    """Sizes of the merged output sections if every leaf is appended at the next
    multiple of its alignment (the natural merge).  Only used to choose bounds."""
    out = {}
    for k, o in enumerate(odescs):
        for j, s in enumerate(o["sections"]):
            m = out.setdefault(s["name"], {"size": 0, "align": min_align, "leaves": []})
            m["align"] = max(m["align"], s.get("align", 4))
            off = _up(m["size"], s.get("align", 4))
            m["leaves"].append((k, j, off))
            m["size"] = off + s["size"]
    return out


def place(odescs, ldesc, min_align=4):
    ms = merged_sections(odescs, min_align)
    addr = {}
    totals, payload = [], []
    for m in ldesc["memories"]:
        cur = m["location"]
        end = cur
        pay = 0
        for kind, arg in m["inputs"]:
            if kind == "SECTION":
                s = ms.get(arg, {"size": 0, "align": min_align})
                cur = _up(cur, s["align"])
                addr[arg] = cur
                cur += s["size"]
                pay += s["size"]
                end = cur
            elif kind == "SECTIONDATA":
                s = ms.get(arg, {"size": 0})
                addr["_$%s_" % arg] = cur
                cur += s["size"]
                pay += s["size"]
                end = cur
            elif kind == "DEFINESYMBOL":
                addr["_$%s_" % arg] = cur
                end = cur
            elif kind == "ALIGN":
                cur = _up(cur, arg)
        totals.append(end - m["location"])
        payload.append(pay)
    return {"sections": addr, "totals": totals, "payload": payload}


def with_sizes(ldesc, sizes):
    return {"entry": ldesc.get("entry"),
            "memories": [dict(m, size=sz) for m, sz in zip(ldesc["memories"], sizes)]}


def size_variants(odescs, ldesc):
    """[(label, ldesc)]: all memories exact; each memory in turn one byte short; all one byte spare."""
    tot = place(odescs, ldesc)["totals"]
    out = [("exact", with_sizes(ldesc, tot))]
    for i in range(len(tot)):
        if tot[i] > 0:
            out.append(("short%d" % i, with_sizes(ldesc, [t - 1 if k == i else t for k, t in enumerate(tot)])))
    out.append(("spare", with_sizes(ldesc, [t + 1 for t in tot])))
    return out


# ------------------------------------------------------------------ enumerators

def shapes(sizes=SIZES, aligns=ALIGNS):
    """(size, align) pairs, simplest first.  count = len(sizes) * len(aligns)."""
    return sorted(itertools.product(sizes, aligns), key=lambda sa: (sa[0] + sa[1], sa))


def std_symbols(tag, sections):
    """Marker symbols for one object: per section a local at offset 0, a global in the
    middle and a global at the end (offsets de-duplicated).  Names are unique per leaf."""
    out = []
    for s in sections:
        seen = []
        for off, binding in ((0, "local"), (s["size"] // 2, "global"), (s["size"], "global")):
            if off in seen:
                continue
            seen.append(off)
            out.append(sym("%s%d_%s_%d" % ("l" if binding == "local" else "g", tag, s["name"], off), binding, s["name"], off))
    return out


def merge_sets(n, shp, names=("code",), arch="arm"):
    """Every n-tuple of objects in which object k has, for each name in `names`, a section of a
    shape from `shp` (all objects use the same shape index offset per name: section i of object k
    takes shape tuple element [k][i]).  count = len(shp) ** (n * len(names)).  Simplest first."""
    per_obj = list(itertools.product(shp, repeat=len(names)))
    combos = sorted(itertools.product(per_obj, repeat=n),
                    key=lambda c: (sum(s for o in c for s, _ in o), sum(a for o in c for _, a in o), c))
    out = []
    for c in combos:
        objs = []
        for k, oshape in enumerate(c):
            secs = [sec(nm, sz, al) for nm, (sz, al) in zip(names, oshape)]
            objs.append(obj(secs, std_symbols(k, secs), arch=arch, tag=k))
        out.append(objs)
    return out


def role_sets(nobj, names=("x",), roles=ROLES, size=4, align=4, arch="arm"):
    """Every assignment of a role to (object, name): absent / local definition / global
    definition / undefined global reference.  Each object has one `code` section of the
    given shape; a definition of the i-th name sits at offset i+1.
    count = len(roles) ** (nobj * len(names)).  Returns [(roles matrix, [odesc])]."""
    out = []
    for assign in itertools.product(roles, repeat=nobj * len(names)):
        objs = []
        for k in range(nobj):
            secs = [sec("code", size, align)]
            syms = []
            for i, nm in enumerate(names):
                r = assign[k * len(names) + i]
                if r == "local":
                    syms.append(sym(nm, "local", "code", i + 1))
                elif r == "global":
                    syms.append(sym(nm, "global", "code", i + 1))
                elif r == "undef":
                    syms.append(sym(nm, "global", None, None))
            objs.append(obj(secs, syms, arch=arch, tag=k))
        out.append(([list(assign[k * len(names):(k + 1) * len(names)]) for k in range(nobj)], objs))
    rank = {r: i for i, r in enumerate(roles)}
    out.sort(key=lambda ro: (sum(rank[r] != 0 for row in ro[0] for r in row), [[rank[r] for r in row] for row in ro[0]]))
    return out


def layouts(items, max_len, max_mems=2, locations=(0x100, 0x2001), entry=None, min_len=1):
    """Every sequence of min_len..max_len *distinct* items from `items`, cut into 1..max_mems
    non-empty consecutive memories (the text grammar needs >= 1 input per memory).  Memory k is
    named m<k> and located at locations[k]; sizes are BIG (use size_variants to tighten).
    count = sum over n of P(len(items), n) * sum_{j<max_mems} C(n-1, j)."""
    out = []
    for n in range(min_len, max_len + 1):
        for seq in itertools.permutations(items, n):
            for nm in range(1, min(max_mems, n) + 1):
                for cuts in itertools.combinations(range(1, n), nm - 1):
                    bounds = (0,) + cuts + (n,)
                    mems = [mem("m%d" % k, locations[k], BIG, seq[bounds[k]:bounds[k + 1]]) for k in range(nm)]
                    out.append(layout(mems, entry))
    return out


def layouts_count(nitems, max_len, max_mems=2, min_len=1):
    import math
    tot = 0
    for n in range(min_len, max_len + 1):
        tot += math.perm(nitems, n) * sum(math.comb(n - 1, j) for j in range(0, min(max_mems, n)))
    return tot


# ------------------------------------------------------------------ C14 field sweeps

ODD_NAMES = ["", " ", ".text", "a b", "café", "中", "q\"uote", "back\\slash", "new\nline", "tab\t", "0x10",
             "-1", "null", "_$x_", "x" * 300, "\u0001", "\U0001F600", "{}[],:"]
C14_SIZES = (0, 1, 29, 30, 31, 1000)
ADDENDS = (0, 1, -1, 4, -4, 255, -256, 2 ** 31 - 1, -2 ** 31, 2 ** 31, 2 ** 32, -2 ** 32 - 1, 2 ** 63, -2 ** 63, 2 ** 64 + 5, -2 ** 70)
ADDRESSES = (0, 1, 0x100, 0x7FFFFFFF, 0x80000000, 2 ** 32, 2 ** 64 - 1, 2 ** 64 + 5)
C14_ALIGNS = (1, 2, 4, 8, 16, 4096)
ARCHES = ("arm", "arm:thumb", "arm:thumb:neon", "avr", "example", "m68k", "mcs6500", "microblaze", "mips", "msp430", "or1k",
          "riscv", "riscv:rvc", "riscv:rvc:rvf", "stm8", "x86_64", "x86_64:wincc", "x86_64:sse2:sse3", "xtensa")


def base_object(arch="arm"):
    """A small ordinary linkable object: the centre of the one-field-at-a-time sweeps."""
    secs = [sec("code", 8, 4, "ramp"), sec("data", 5, 2, "ramp")]
    syms = [sym("f", "global", "code", 0, "func", 8), sym("l", "local", "code", 4), sym("d", "global", "data", 1, "object", 4),
            sym("u", "global", None, None)]
    rels = [rel("rel8", 3, "code", 2, 0), rel("rel8", 2, "code", 6, -4)]
    return obj(secs, syms, rels, arch=arch)


def c14_objects(tier="quick"):
    """Objects for save/load: one-field-at-a-time sweeps around base_object, then products of the
    fields that interact (data size x fill, addend x offset, image membership orders).
    Returns [(label, odesc)], simplest first; labels are the swept feature (locus vocabulary)."""
    out = []

    def put(label, o):
        out.append((label, o))

    put("base", base_object())
    put("empty", obj([]))
    # data size x fill x alignment x address
    fills = ("ramp", "zero", "ff")
    sizes = tuple(sorted(set(C14_SIZES) | set(range(0, 70)) | {255, 256, 257, 999, 1001, 4096}))
    if tier != "quick":
        sizes = tuple(sorted(set(sizes) | set(range(70, 200)) | {65535, 65536}))
    for sz in sizes:
        for f in fills:
            for al in C14_ALIGNS:
                for ad in ADDRESSES:
                    put("section/data", obj([sec("code", sz, al, f, address=ad)], [sym("s", "global", "code", 0)]))
    for al in C14_ALIGNS:
        put("section/alignment", obj([sec("code", 4, al, "ramp")]))
    for ad in ADDRESSES:
        put("section/address", obj([sec("code", 4, 4, "ramp", address=ad), sec("data", 4, 4, "ramp", address=ad + 8)]))
    # names
    for n in ODD_NAMES:
        put("section/name", obj([sec(n, 3, 1, "ramp")], [sym("s", "global", n, 1)], [rel("rel8", 0, n, 0, 0)], [img("i", 0, [n])]))
        put("symbol/name", obj([sec("code", 3, 1, "ramp")], [sym(n, "global", "code", 1), sym(n, "local", "code", 2)]))
        put("image/name", obj([sec("code", 3, 1, "ramp")], images=[img(n, 0x10, ["code"])]))
        put("reloc/type", obj([sec("code", 3, 1, "ramp")], [sym("s", "global", "code", 1)], [rel(n, 0, "code", 1, 0)]))
    # symbols: every field
    for sid in (0, 1, 7, 2 ** 31, 2 ** 40):
        for binding in ("global", "local"):
            for value in (None, 0, 1, 0x90, 2 ** 32, 2 ** 64 + 1):
                for typ in ("object", "func"):
                    for size in (0, 4, 2 ** 33):
                        put("symbol/fields", obj([sec("code", 4, 4, "ramp")],
                                                 [sym("s", binding, None if value is None else "code", value, typ, size, id=sid)]))
    put("symbol/absolute", obj([sec("code", 4)], [sym("abs", "global", None, 0x1234)]))
    put("symbol/many", obj([sec("code", 16)], [sym("s%d" % i, "global" if i % 2 else "local", "code", i, id=40 - i) for i in range(16)]))
    # relocations
    for ad in ADDENDS:
        for off in (0, 1, 0x1000, 2 ** 32):
            put("reloc/addend", obj([sec("code", 8, 4, "ramp")], [sym("s", "global", None, None)], [rel("rel8", 0, "code", off, ad)]))
    put("reloc/many", obj([sec("code", 8), sec("data", 8)], [sym("a", "global", "code", 0), sym("b", "local", "data", 4)],
                          [rel("rel8", i % 2, ("code", "data")[i % 2], i, i - 3) for i in range(8)]))
    # images: membership order, sharing, emptiness, duplicates of names
    names = ["code", "data", "extra"]
    secs3 = [sec("code", 4, 4, "ramp", address=0x100), sec("data", 4, 4, "ramp", address=0x104), sec("extra", 0, 4, "ramp", address=0x108)]
    for n in range(0, 4):
        for order in itertools.permutations(names, n):
            put("image/sections", obj(secs3, images=[img("rom", 0x100, order)]))
            put("image/two", obj(secs3, images=[img("rom", 0x100, order), img("ram", 2 ** 32, order[::-1])]))
    put("image/same-name", obj(secs3, images=[img("flash", 0x100, ["code"]), img("flash", 0x2000, ["data"])]))
    for ad in ADDRESSES:
        put("image/address", obj(secs3, images=[img("rom", ad, ["code"])]))
    # entry
    for e in (None, 0, 1, 3, 99):
        o = base_object()
        o["entry"] = e
        put("entry", o)
    # arch
    for a in ARCHES:
        o = base_object(a)
        o["relocs"] = []
        put("arch", o)
    return out


def c14_product(tier="quick"):
    """Full product of small alphabets for every field group of an object file (interactions between fields):
    data size x alignment x address x symbol kind x relocation addend x images x entry.
    count = product of the alphabet sizes.  Returns [(label, odesc)]."""
    sizes = (0, 1, 29, 30, 31, 1000) if tier == "quick" else (0, 1, 29, 30, 31, 32, 1000)
    aligns = (1, 8) if tier == "quick" else (1, 2, 8)
    addresses = (0, 0x100, 2 ** 32, 2 ** 64 + 5)
    symkinds = ("none", "undef", "local", "global")
    addends = (None, 0, -1, -2 ** 31, 2 ** 64) if tier == "quick" else (None, 0, 1, -1, -2 ** 31, 2 ** 64, -2 ** 70)
    images = ("none", "one", "two-reversed")
    entries = (None, 0)
    out = []
    for sz, al, ad, sk, addend, im, en in itertools.product(sizes, aligns, addresses, symkinds, addends, images, entries):
        secs = [sec("code", sz, al, "ramp", address=ad), sec("data", 3, 2, "ff", address=ad + 0x2000)]
        syms = []
        if sk == "undef":
            syms.append(sym("s", "global", None, None, "func", 0))
        elif sk != "none":
            syms.append(sym("s", sk, "code", sz, "object", sz))
        rels = []
        if addend is not None and syms:
            rels.append(rel("abs32", 0, "data", 1, addend))
        ims = []
        if im == "one":
            ims = [img("rom", ad, ["code", "data"])]
        elif im == "two-reversed":
            ims = [img("a", ad, ["data", "code"]), img("b", 1, [])]
        out.append(("product", obj(secs, syms, rels, ims, entry=en if syms else None)))
    return out
