"""Case families for C29 (code generation succeeds for supported IR).

A *case* is a small JSON identifier (`ident`) from which `make(ident)` rebuilds an `irgen` module description whose entry
function is called "f" (helpers: "cal").  Cases are target independent; the *enumerators* take the list of value types the
target supports, so that a case never mentions a type outside the property.  `merge(descs)` puts several cases into one module
(everything renamed with a numeric suffix) for batched compilation.

ident forms (ty is an IR type name, "ptr" included; a *source* is "P" parameter | "=" the same parameter again |
"L" value loaded from global g | ["C", v] constant (floats spelled as repr strings) | "G" address of global g (ptr only)):
  {"f":"bin","ty":T,"op":O,"a":src,"b":src}          f(..) -> T = a O b
  {"f":"un","ty":T,"op":O,"a":src}                   f(..) -> T = O a
  {"f":"cast","ty":S,"to":D,"a":src}                 f(..) -> D = cast a
  {"f":"cmp","ty":T,"op":C,"a":src,"b":src}          f(..) -> i32 = a C b ? 1 : 0   (CJump)
  {"f":"mem","ty":T,"k":"ld"|"st","addr":[kind,off],"v":src|"B"}    load / store through one address shape
  {"f":"ga","k":...}                                 uses of a global / function address as a value
  {"f":"call","n":N,"tys":[...],"ret":T|None,"to":"ext"|"loc"|"ptr","args":"P"|"C"}
  {"f":"press","tys":[...],"n":K,"m":"plain"|"call"|"div"|"params"}
  {"f":"phi","ty":T,"k":"diamond"|"loop","b":src}
  {"f":"retc","ty":T,"v":v}   {"f":"undef","ty":T}   {"f":"memcpy","n":N}   {"f":"frame","size":S,"align":A}   {"f":"misc","k":...}
  {"f":"l1","ty":T,"k":K,"i":I}  {"f":"l2","n":N,"i":I,"ty":T}  {"f":"l3","nb":B,"variants":V,"i":I}  {"f":"l4","ty":T,"i":I}  {"f":"l5","i":I}
  {"f":"c","name":corpus name}                       (built by the C front end for the target; see c29.make_module)
"""
from . import irgen

TYPE_ORDER = ["i32", "u32", "i8", "u8", "i16", "u16", "i64", "u64", "ptr", "f32", "f64"]
INTS = irgen.INT_TYPES
FLOATS = irgen.FLOAT_TYPES
GLOBALS = [["g", 64, 8, None], ["h", 64, 8, None]]
OFFSETS = [1, 4, 8, 124, 128, 255, 256, 1020, 1024, 2047, 2048, 4095, 4096, 32767, 32768, 65535, 65536, 1 << 20]


def is_int(ty):
    return ty in INTS


def bits(ty):
    return int(ty[1:])


def binops(ty):
    if ty in FLOATS:
        return ["+", "-", "*", "/"]
    if ty == "ptr":
        return ["+", "-"]
    return irgen.BINOPS


def unops(ty):
    return ["-"] if ty in FLOATS else ["-", "~"]


def enc(v):
    return repr(v) if isinstance(v, float) else v


def dec(ty, v):
    return float(v) if isinstance(v, str) else v


def consts(ty, k):
    """Constant alphabet of a type, encoded for idents.  ptr uses the u32 alphabet (fits every target's pointer)."""
    if ty == "ptr":
        return irgen.V("u32", k)
    return [enc(v) for v in irgen.V(ty, k)]


def operand_is_undefined(ty, op, b):
    """The operation has no defined result for this constant right operand (shift count outside [0,width), division by 0).
    Such cases are still well-formed IR; the check keys them separately."""
    if not (isinstance(b, list) and b[0] == "C") or isinstance(b[1], str) or ty in FLOATS:
        return False
    w = 32 if ty == "ptr" else bits(ty)
    if op in ("<<", ">>"):
        return not (0 <= b[1] < w)
    if op in ("/", "%"):
        return b[1] == 0
    return False


# ------------------------------------------------------------------------------------------------ function builder

class FB:
    """Sequential builder of one irgen function description (blocks are filled strictly in order)."""

    def __init__(self, name="f", ret=None):
        self.name, self.ret, self.params, self.blocks, self.n = name, ret, [], [[]], 0

    def param(self, ty):
        self.params.append(ty)
        return "p%d" % (len(self.params) - 1)

    def v(self, *ins):
        self.blocks[-1].append(list(ins))
        self.n += 1
        return "%%%d" % (self.n - 1)

    def s(self, *ins):
        self.blocks[-1].append(list(ins))

    def block(self):
        self.blocks.append([])
        return len(self.blocks) - 1

    def desc(self):
        return {"name": self.name, "ret": self.ret, "params": self.params, "blocks": self.blocks}


class MB:
    def __init__(self):
        self.ext = {}
        self.funcs = []

    def external(self, argtys, ret):
        name = "x_" + "_".join(argtys) + "__" + (ret or "v")
        self.ext[name] = [name, list(argtys), ret]
        return "@" + name

    def desc(self):
        return {"name": "c29", "globals": [list(g) for g in GLOBALS], "externals": [self.ext[k] for k in sorted(self.ext)],
                "functions": [f.desc() for f in self.funcs]}


def src(fb, ty, s, first=None):
    if s == "P":
        return fb.param(ty)
    if s == "=":
        return first
    if s == "L":
        return fb.v("load", ty, "@g")
    if s == "G":
        return "@g"
    if isinstance(s, list) and s[0] == "C":
        return fb.v("const", ty, dec(ty, s[1]))
    raise ValueError(s)


def finish_ret(fb, ty, val):
    fb.ret = ty
    fb.s("ret", val)


# ------------------------------------------------------------------------------------------------ enumerators

def order(types):
    return [t for t in TYPE_ORDER if t in types]


def fam_bin(types, k=13, kl=13):
    """k: alphabet for (parameter, constant) pairs, kl: alphabet for (constant, parameter), (loaded value, constant) and
    (constant, loaded value) pairs."""
    for ty in order(types):
        vs = consts(ty, k)
        vl = consts(ty, kl)
        base = [("P", "P"), ("P", "="), ("P", "L"), ("L", "P"), ("L", "L")]
        if ty == "ptr":
            base += [("G", "P"), ("P", "G"), ("G", "G"), ("G", "L")]
        for op in binops(ty):
            for a, b in base:
                yield {"f": "bin", "ty": ty, "op": op, "a": a, "b": b}
            for v in vs:
                c = ["C", v]
                for a, b in (("P", c),) + ((("L", c), (c, "L"), (c, "P")) if v in vl else ()) + ((("G", c),) if ty == "ptr" else ()):
                    yield {"f": "bin", "ty": ty, "op": op, "a": a, "b": b}
            for v1 in vs[:3]:
                for v2 in vs[:3]:
                    yield {"f": "bin", "ty": ty, "op": op, "a": ["C", v1], "b": ["C", v2]}


def fam_un(types, k=7):
    for ty in order(types):
        if ty == "ptr":
            continue
        for op in unops(ty):
            for a in ["P", "L"] + [["C", v] for v in consts(ty, k)]:
                yield {"f": "un", "ty": ty, "op": op, "a": a}


def fam_cast(types, k=7):
    for s in order(types):
        for d in order(types):
            if s == d:
                continue
            srcs = ["P", "L"] + (["G"] if s == "ptr" else []) + [["C", v] for v in consts(s, k)]
            for a in srcs:
                if isinstance(a, list) and isinstance(a[1], str) and d not in FLOATS and a[1] in ("nan", "inf", "-inf"):
                    continue  # cast of NaN / infinity to an integer has no defined result
                yield {"f": "cast", "ty": s, "to": d, "a": a}


def fam_cmp(types, k=13, kl=13):
    for ty in order(types):
        vs = consts(ty, k)
        vl = consts(ty, kl)
        for op in irgen.CONDS:
            for a, b in [("P", "P"), ("P", "="), ("P", "L"), ("L", "P"), ("L", "L")] + ([("G", "P"), ("P", "G")] if ty == "ptr" else []):
                yield {"f": "cmp", "ty": ty, "op": op, "a": a, "b": b}
            for v in vs:
                yield {"f": "cmp", "ty": ty, "op": op, "a": "P", "b": ["C", v]}
                if v in vl:
                    yield {"f": "cmp", "ty": ty, "op": op, "a": ["C", v], "b": "P"}
                    yield {"f": "cmp", "ty": ty, "op": op, "a": "L", "b": ["C", v]}


ADDR_PLAIN = [["G", 0], ["A", 0], ["P", 0], ["PI", 0], ["PS", 0], ["IC", 0], ["PM", 4]]
ADDR_OFF = [[kind, off] for kind in ("G", "A", "P") for off in OFFSETS]


def fam_mem(types):
    for ty in order(types):
        for addr in ADDR_PLAIN + ADDR_OFF:
            yield {"f": "mem", "ty": ty, "k": "ld", "addr": addr}
            yield {"f": "mem", "ty": ty, "k": "st", "addr": addr, "v": "P"}
        for addr in ADDR_PLAIN:
            for v in consts(ty, 7):
                yield {"f": "mem", "ty": ty, "k": "st", "addr": addr, "v": ["C", v]}
            yield {"f": "mem", "ty": ty, "k": "st", "addr": addr, "v": "L"}
            if ty != "ptr":
                yield {"f": "mem", "ty": ty, "k": "st", "addr": addr, "v": "B"}
        for addr in ADDR_OFF:
            yield {"f": "mem", "ty": ty, "k": "st", "addr": addr, "v": ["C", consts(ty, 3)[1]]}


GA_KINDS = ["ret_g", "ret_fn", "ret_ext", "store_g", "store_fn", "arg_g", "arg_fn", "cmp_g_g", "load_cast_g", "phi_fn"]


def fam_ga(types):
    for k in GA_KINDS:
        yield {"f": "ga", "k": k}
    for ty in order(types):
        if is_int(ty):
            yield {"f": "ga", "k": "cast_g", "ty": ty}
            yield {"f": "ga", "k": "cast_fn", "ty": ty}


def fam_call(types, maxn=12):
    """n = 0..maxn arguments; uniform argument type: external callee x {params, constants} x {no result, result}, local callee x
    params x {no result, result}, indirect callee (n in 0,1,4,7,maxn) x params x result; rotated type mixes (n >= 2): external and
    local callee x params x {no result, result}."""
    ts = order(types)
    for n in range(0, maxn + 1):
        for ty in ts:
            for ret in (None, ty):
                yield {"f": "call", "n": n, "tys": [ty] * n, "ret": ret, "to": "ext", "args": "P"}
                if n:
                    yield {"f": "call", "n": n, "tys": [ty] * n, "ret": ret, "to": "ext", "args": "C"}
                yield {"f": "call", "n": n, "tys": [ty] * n, "ret": ret, "to": "loc", "args": "P"}
            if n in (0, 1, 4, 7, maxn):
                yield {"f": "call", "n": n, "tys": [ty] * n, "ret": ty, "to": "ptr", "args": "P"}
        if n >= 2:
            for to in ("ext", "loc"):
                for r in range(len(ts)):
                    tys = [ts[(i + r) % len(ts)] for i in range(n)]
                    for ret in (None, ts[r]):
                        yield {"f": "call", "n": n, "tys": tys, "ret": ret, "to": to, "args": "P"}


def fam_press(types, ks=(4, 8, 12, 16)):
    ts = order(types)
    for n in ks:
        for m in ("plain", "call", "params", "div"):
            for ty in ts:
                if m == "div" and not is_int(ty):
                    continue
                yield {"f": "press", "tys": [ty], "n": n, "m": m}
            yield {"f": "press", "tys": ts, "n": n, "m": m}
            ints = [t for t in ts if is_int(t)]
            if ints != ts:
                yield {"f": "press", "tys": ints, "n": n, "m": m}


def fam_phi(types):
    for ty in order(types):
        for b in ["P", "L", ["C", consts(ty, 3)[1]]] + (["G"] if ty == "ptr" else []):
            yield {"f": "phi", "ty": ty, "k": "diamond", "b": b}
        yield {"f": "phi", "ty": ty, "k": "loop", "b": "P"}


def fam_misc(types, k=13):
    for ty in order(types):
        for v in consts(ty, k):
            yield {"f": "retc", "ty": ty, "v": v}
        yield {"f": "undef", "ty": ty}
    for n in (1, 2, 3, 4, 5, 7, 8, 12, 16, 31, 32, 33, 64, 100, 255, 256, 1000, 4096):
        yield {"f": "memcpy", "n": n}
    for size in (1, 2, 4, 8, 16, 100, 252, 256, 1000, 1020, 1024, 2044, 2048, 4092, 4096, 5000, 32764, 32768, 40000, 70000):
        for align in (1, 4, 8, 16):
            yield {"f": "frame", "size": size, "align": align}
    for kk in ("empty_proc", "lit", "recursion", "two_tailrec", "proc_call_chain", "many_blocks", "many_allocs"):
        yield {"f": "misc", "k": kk}


_cache = {}


def _cached(key, fn):
    if key not in _cache:
        _cache[key] = list(fn())
    return _cache[key]


def fam_irgen(types, tier, seed):
    ts = order(types)
    quick = tier == "quick"
    for i in range(len(irgen.l5_programs())):
        yield {"f": "l5", "i": i}
    for ty in ts:
        if ty == "ptr":
            continue
        for i in range(len(irgen.l4_programs(ty))):
            if ty in FLOATS:
                continue  # the L4 programs use integer literals
            yield {"f": "l4", "ty": ty, "i": i}
    l2types = ["i32"] if quick else [t for t in ts if t != "ptr"]
    for ty in l2types:
        for n in ((1, 2) if quick or ty != "i32" else (1, 2, 3)):
            cnt = len(_cached(("l2", n, ty), lambda: irgen.l2_programs(n, ty)))
            for i in range(cnt):
                yield {"f": "l2", "n": n, "i": i, "ty": ty}
    for nb in (1, 2, 3):
        variants = 2 if quick and nb == 3 else 4
        cnt = len(_cached(("l3", nb, variants), lambda: irgen.l3_programs(nb, variants)))
        for i in range(cnt):
            yield {"f": "l3", "nb": nb, "variants": variants, "i": i}
    if not quick:
        sk = _cached(("sk", 4), lambda: irgen.cfg_skeletons(4))
        for i in range(seed % 4, len(sk), 4):
            yield {"f": "l3s", "nb": 4, "si": i, "v": (i + seed) % 4}
    vts = [t for t in ts if t != "ptr"]
    for ty in vts:
        cnt = len(_cached(("l1", ty, 1), lambda: irgen.l1_programs([ty], 1)))
        for i in range(cnt):
            yield {"f": "l1", "ty": ty, "k": 1, "i": i}
    k2 = ["i32"] if quick else vts
    for ty in k2:
        cnt = len(_cached(("l1", ty, 2), lambda: irgen.l1_programs([ty], 2)))
        # quick: the seed picks one of three complete residue classes of the k=2 programs (every (first, second) instruction
        # kind pair still occurs: consecutive programs differ in the second instruction's operands only)
        for i in range(seed % 3, cnt, 3) if quick else range(cnt):
            yield {"f": "l1", "ty": ty, "k": 2, "i": i}


def fam_c():
    from . import ccorpus
    for name, _ in ccorpus.CORPUS:
        yield {"f": "c", "name": name}


def enumerate_cases(types, tier="quick", seed=0):
    """All cases for a target supporting `types` (value type names incl. 'ptr'), simplest first inside every family."""
    quick = tier == "quick"
    out = []
    out += list(fam_bin(types, 13, 7 if quick else 13))
    out += list(fam_un(types, 7 if quick else 13))
    out += list(fam_cast(types, 7 if quick else 13))
    out += list(fam_cmp(types, 13, 7 if quick else 13))
    out += list(fam_mem(types))
    out += list(fam_ga(types))
    out += list(fam_call(types, 12 if quick else 16))
    out += list(fam_press(types, (4, 8, 12, 16) if quick else (4, 8, 12, 16, 24, 32)))
    out += list(fam_phi(types))
    out += list(fam_misc(types))
    out += list(fam_irgen(types, tier, seed))
    out += list(fam_c())
    return out


# ------------------------------------------------------------------------------------------------ builders

def types_used(ident):
    """Value types a case mentions by construction (the check additionally scans the built module)."""
    f = ident["f"]
    if f in ("call", "press"):
        return set(ident["tys"]) | ({ident["ret"]} if ident.get("ret") else set())
    s = set()
    for k in ("ty", "to"):
        if k in ident:
            s.add(ident[k])
    return s


def make(ident):
    """irgen module description for a generated case (every family except 'c')."""
    f = ident["f"]
    if f in ("l1", "l2", "l3", "l3s", "l4", "l5"):
        return _make_irgen(ident)
    mb = MB()
    fb = FB("f")
    mb.funcs.append(fb)
    globals()["_mk_" + f](mb, fb, ident)
    return mb.desc()


def _mk_bin(mb, fb, d):
    ty = d["ty"]
    a = src(fb, ty, d["a"])
    b = src(fb, ty, d["b"], a)
    finish_ret(fb, ty, fb.v("bin", d["op"], a, b, ty))


def _mk_un(mb, fb, d):
    ty = d["ty"]
    a = src(fb, ty, d["a"])
    finish_ret(fb, ty, fb.v("un", d["op"], a, ty))


def _mk_cast(mb, fb, d):
    a = src(fb, d["ty"], d["a"])
    finish_ret(fb, d["to"], fb.v("cast", d["to"], a))


def _mk_cmp(mb, fb, d):
    ty = d["ty"]
    a = src(fb, ty, d["a"])
    b = src(fb, ty, d["b"], a)
    one = fb.v("const", "i32", 1)
    zero = fb.v("const", "i32", 0)
    fb.s("cjmp", a, d["op"], b, 1, 2)
    fb.block()
    fb.s("ret", one)
    fb.block()
    fb.s("ret", zero)
    fb.ret = "i32"


def address(fb, kind, off, size):
    if kind == "G":
        base = "@g"
    elif kind == "A":
        al = fb.v("alloc", max(size, off + size, 1), 8)
        base = fb.v("addr", al)
    elif kind in ("P", "PI", "PS", "PM"):
        base = fb.param("ptr")
    elif kind == "IC":
        return fb.v("cast", "ptr", fb.param("u32"))
    else:
        raise ValueError(kind)
    if kind == "PI":
        idx = fb.v("cast", "ptr", fb.param("i32"))
        return fb.v("bin", "+", base, idx, "ptr")
    if kind == "PS":
        esz = fb.v("const", "i32", size)
        scaled = fb.v("bin", "*", fb.param("i32"), esz, "i32")
        return fb.v("bin", "+", base, fb.v("cast", "ptr", scaled), "ptr")
    if kind == "PM":
        return fb.v("bin", "-", base, fb.v("const", "ptr", off), "ptr")
    if off:
        return fb.v("bin", "+", base, fb.v("const", "ptr", off), "ptr")
    return base


def tysize(ty):
    return 8 if ty == "ptr" else bits(ty) // 8


def _mk_mem(mb, fb, d):
    ty = d["ty"]
    kind, off = d["addr"]
    if d["k"] == "ld":
        a = address(fb, kind, off, tysize(ty))
        finish_ret(fb, ty, fb.v("load", ty, a))
        return
    v = d["v"]
    if v == "B":
        p = fb.param(ty)
        q = fb.param(ty)
        val = fb.v("bin", "+", p, q, ty)
    elif v == "L":
        val = fb.v("load", ty, "@h")
    else:
        val = src(fb, ty, v)
    a = address(fb, kind, off, tysize(ty))
    fb.s("store", val, a)
    fb.s("exit")


def _callee(mb, name="cal", params=("i32",), ret="i32"):
    c = FB(name, ret)
    for t in params:
        c.s("store", c.param(t), "@h", True)
    if ret is None:
        c.s("exit")
    elif ret in params:
        c.s("ret", "p%d" % (len(params) - 1 - list(reversed(params)).index(ret)))
    else:
        c.s("ret", c.v("load", ret, "@h"))
    mb.funcs.append(c)
    return "@" + name


def _mk_ga(mb, fb, d):
    k = d["k"]
    if k in ("ret_fn", "store_fn", "arg_fn", "cast_fn", "phi_fn"):
        _callee(mb)
    if k == "ret_g":
        finish_ret(fb, "ptr", fb.v("cast", "ptr", "@g"))
    elif k == "ret_fn":
        finish_ret(fb, "ptr", fb.v("cast", "ptr", "@cal"))
    elif k == "ret_ext":
        x = mb.external(["i32"], "i32")
        finish_ret(fb, "ptr", fb.v("cast", "ptr", x))
    elif k == "store_g":
        fb.s("store", "@g", "@h")
        fb.s("exit")
    elif k == "store_fn":
        fb.s("store", "@cal", "@h")
        fb.s("exit")
    elif k == "arg_g":
        x = mb.external(["ptr"], None)
        fb.s("call", x, ["@g"], None)
        fb.s("exit")
    elif k == "arg_fn":
        x = mb.external(["ptr"], None)
        fb.s("call", x, ["@cal"], None)
        fb.s("exit")
    elif k == "cmp_g_g":
        one = fb.v("const", "i32", 1)
        fb.s("cjmp", "@g", "==", "@h", 1, 2)
        fb.block()
        fb.s("ret", one)
        fb.block()
        fb.s("ret", fb.v("const", "i32", 0))
        fb.ret = "i32"
    elif k == "load_cast_g":
        a = fb.v("cast", "ptr", "@g")
        finish_ret(fb, "i32", fb.v("load", "i32", a))
    elif k == "phi_fn":
        x = mb.external(["i32"], "i32")
        p = fb.param("i32")
        z = fb.v("const", "i32", 0)
        fb.s("cjmp", p, ">", z, 1, 2)
        fb.block()
        fb.s("jmp", 3)
        fb.block()
        fb.s("jmp", 3)
        fb.block()
        ph = fb.v("phi", "ptr", [[1, "@cal"], [2, x]])
        finish_ret(fb, "i32", fb.v("call", ph, [p], "i32"))
    elif k == "cast_g":
        finish_ret(fb, d["ty"], fb.v("cast", d["ty"], "@g"))
    elif k == "cast_fn":
        finish_ret(fb, d["ty"], fb.v("cast", d["ty"], "@cal"))
    else:
        raise ValueError(k)


def one_of(ty):
    return 1.0 if ty in FLOATS else 1


def _mk_call(mb, fb, d):
    tys, ret, to = d["tys"], d["ret"], d["to"]
    if to == "ext":
        callee = mb.external(tys, ret)
    elif to == "loc":
        callee = _callee(mb, "cal", tys, ret)
    else:
        callee = fb.v("load", "ptr", "@g")
    if d["args"] == "P":
        args = [fb.param(t) for t in tys]
    else:
        args = [fb.v("const", t, one_of(t) + (i if t not in FLOATS else 0.5 * i)) for i, t in enumerate(tys)]
    if ret is None:
        fb.s("call", callee, args, None)
        fb.s("exit")
    else:
        finish_ret(fb, ret, fb.v("call", callee, args, ret))


def _mk_press(mb, fb, d):
    tys, n, m = d["tys"], d["n"], d["m"]
    vt = [tys[i % len(tys)] for i in range(n)]
    if m == "params":
        vals = [fb.param(t) for t in vt]
    else:
        vals = [fb.v("load", t, "@g", True) for t in vt]
    if m in ("call", "params"):
        fb.s("call", mb.external([], None), [], None)
    extra = []
    if m == "div":
        byty = {}
        for v, t in zip(vals, vt):
            byty.setdefault(t, []).append(v)
        for t, vs in byty.items():
            if len(vs) >= 2:
                if t == "ptr":
                    continue
                # remainder and shifts are integer operations (no front end produces them on floating point values)
                for op in (("/", "%", "<<", ">>", "*") if is_int(t) else ("/", "*")):
                    extra.append((fb.v("bin", op, vs[0], vs[1], t), t))
    for v in reversed(vals):
        fb.s("store", v, "@h", True)
    for v, t in extra:
        fb.s("store", v, "@h", True)
    fb.s("exit")


def _mk_phi(mb, fb, d):
    ty = d["ty"]
    c = fb.param("i32")
    a = fb.param(ty)
    if d["k"] == "diamond":
        b = src(fb, ty, d["b"])
        z = fb.v("const", "i32", 0)
        fb.s("cjmp", c, "==", z, 1, 2)
        fb.block()
        fb.s("jmp", 3)
        fb.block()
        fb.s("jmp", 3)
        fb.block()
        finish_ret(fb, ty, fb.v("phi", ty, [[1, a], [2, b]]))
        return
    # loop: (x, y) = (y, x) c times; return x   -- phis that read each other
    b = fb.param(ty)
    z = fb.v("const", "i32", 0)      # %0
    one = fb.v("const", "i32", 1)    # %1
    fb.s("jmp", 1)
    fb.block()
    x = fb.v("phi", ty, [[0, a], [2, "%3"]])      # %2
    y = fb.v("phi", ty, [[0, b], [2, "%2"]])      # %3
    i = fb.v("phi", "i32", [[0, z], [2, "%5"]])   # %4
    fb.s("cjmp", i, "<", c, 2, 3)
    fb.block()
    fb.v("bin", "+", i, one, "i32")               # %5
    fb.s("jmp", 1)
    fb.block()
    assert (x, y) == ("%2", "%3")
    finish_ret(fb, ty, x)


def _mk_retc(mb, fb, d):
    finish_ret(fb, d["ty"], fb.v("const", d["ty"], dec(d["ty"], d["v"])))


def _mk_undef(mb, fb, d):
    finish_ret(fb, d["ty"], fb.v("undef", d["ty"]))


def _mk_memcpy(mb, fb, d):
    n = d["n"]
    a = fb.v("addr", fb.v("alloc", n, 4))
    b = fb.v("addr", fb.v("alloc", n, 4))
    p = fb.param("ptr")
    fb.s("memcpy", a, p, n)
    fb.s("memcpy", b, a, n)
    fb.s("memcpy", p, b, n)
    fb.s("exit")


def _mk_frame(mb, fb, d):
    size, align = d["size"], d["align"]
    a = fb.v("addr", fb.v("alloc", size, align))
    b = fb.v("addr", fb.v("alloc", size, align))
    p = fb.param("i32")
    fb.s("store", p, a)
    fb.s("store", p, b)
    if size >= 8:
        last = fb.v("bin", "+", b, fb.v("const", "ptr", size - 4), "ptr")
        fb.s("store", p, last)
    x = mb.external(["ptr", "ptr"], None)
    fb.s("call", x, [a, b], None)
    finish_ret(fb, "i32", fb.v("load", "i32", b))


def _mk_misc(mb, fb, d):
    k = d["k"]
    if k == "empty_proc":
        fb.s("exit")
    elif k == "lit":
        lit = fb.v("lit", "00112233445566778899aabbccddeeff")
        a = fb.v("addr", lit)
        finish_ret(fb, "i32", fb.v("load", "i32", a))
    elif k == "recursion":
        p = fb.param("i32")
        one = fb.v("const", "i32", 1)
        fb.s("cjmp", p, "<", one, 1, 2)
        fb.block()
        fb.s("ret", one)
        fb.block()
        q = fb.v("bin", "-", p, one, "i32")
        r = fb.v("call", "@f", [q], "i32")
        finish_ret(fb, "i32", fb.v("bin", "*", r, p, "i32"))
    elif k == "two_tailrec":
        # two tail-recursive functions in one module: f(a, b) = a <= 0 ? b : f(a - 1, b + a), and the same again as cal
        for fn in (fb, FB("cal")):
            if fn is not fb:
                mb.funcs.append(fn)
            a, b = fn.param("i32"), fn.param("i32")
            z = fn.v("const", "i32", 0)
            one = fn.v("const", "i32", 1)
            fn.s("cjmp", a, "<=", z, 1, 2)
            fn.block()
            fn.s("ret", b)
            fn.block()
            a1 = fn.v("bin", "-", a, one, "i32")
            b1 = fn.v("bin", "+", b, a, "i32")
            fn.ret = "i32"
            fn.s("ret", fn.v("call", "@" + fn.name, [a1, b1], "i32"))
    elif k == "proc_call_chain":
        x = mb.external(["i32"], "i32")
        p = fb.param("i32")
        for _ in range(20):
            p = fb.v("call", x, [p], "i32")
        finish_ret(fb, "i32", p)
    elif k == "many_blocks":
        p = fb.param("i32")
        one = fb.v("const", "i32", 1)
        fb.s("jmp", 1)
        for i in range(1, 60):
            fb.block()
            fb.s("store", one, "@g", True)
            if i < 59:
                fb.s("cjmp", p, "==", one, i + 1, 60)
            else:
                fb.s("jmp", 60)
        fb.block()
        finish_ret(fb, "i32", p)
    elif k == "many_allocs":
        p = fb.param("i32")
        addrs = [fb.v("addr", fb.v("alloc", 4, 4)) for _ in range(40)]
        for a in addrs:
            fb.s("store", p, a)
        acc = p
        for a in addrs:
            acc = fb.v("bin", "+", acc, fb.v("load", "i32", a), "i32")
        finish_ret(fb, "i32", acc)
    else:
        raise ValueError(k)


def _make_irgen(d):
    f = d["f"]
    if f == "l5":
        return irgen.l5_programs()[d["i"]]
    if f == "l4":
        return irgen.l4_programs(d["ty"])[d["i"]]
    if f == "l2":
        return _cached(("l2", d["n"], d["ty"]), lambda: irgen.l2_programs(d["n"], d["ty"]))[d["i"]]
    if f == "l3":
        return _cached(("l3", d["nb"], d["variants"]), lambda: irgen.l3_programs(d["nb"], d["variants"]))[d["i"]]
    if f == "l3s":
        sk = _cached(("sk", d["nb"]), lambda: irgen.cfg_skeletons(d["nb"]))[d["si"]]
        v, nb = d["v"], d["nb"]
        bodies = [(k + v) % len(irgen.L3_BODIES) for k in range(nb)]
        conds = [(k + v) % len(irgen.L3_CONDS) for k in range(nb)]
        return irgen.l3_program(sk, bodies, conds)
    if f == "l1":
        return _cached(("l1", d["ty"], d["k"]), lambda: irgen.l1_programs([d["ty"]], d["k"]))[d["i"]]
    raise ValueError(f)


# ------------------------------------------------------------------------------------------------ merging

def _rename_refs(x, names, sfx):
    if isinstance(x, str):
        if x.startswith("@") and x[1:] in names:
            return x + sfx
        return x
    if isinstance(x, list):
        return [_rename_refs(y, names, sfx) for y in x]
    return x


def rename(desc, sfx, keep=()):
    """Rename every function, and every global/external not in `keep`, by appending sfx (references follow)."""
    names = ({g[0] for g in desc.get("globals", [])} | {e[0] for e in desc.get("externals", [])} | {f["name"] for f in desc["functions"]}) - set(keep)
    out = {"name": desc.get("name", "m"),
           "globals": [[g[0] + (sfx if g[0] in names else "")] + list(g[1:]) for g in desc.get("globals", [])],
           "externals": [[e[0] + (sfx if e[0] in names else "")] + list(e[1:]) for e in desc.get("externals", [])],
           "functions": []}
    for f in desc["functions"]:
        blocks = []
        for body in f["blocks"]:
            nb = []
            for ins in body:
                if ins[0] == "lit":
                    nb.append(list(ins))
                else:
                    nb.append([ins[0]] + [_rename_refs(y, names, sfx) for y in ins[1:]])
            blocks.append(nb)
        out["functions"].append({"name": f["name"] + sfx, "ret": f.get("ret"), "params": list(f["params"]), "blocks": blocks})
    return out


def merge(descs):
    """One module holding all cases: functions renamed apart; globals and externals with identical definitions are shared
    (the instruction selector creates one node per module-level symbol per function), conflicting ones renamed apart."""
    out = {"name": "c29batch", "globals": [], "externals": [], "functions": []}
    defs = {}
    for i, d in enumerate(descs):
        keep = []
        for kind in ("globals", "externals"):
            for x in d.get(kind, []):
                x = list(x) + ([None] if kind == "globals" and len(x) == 3 else [])
                if x[0] not in defs:
                    defs[x[0]] = (kind, x[1:])
                    keep.append(x[0])
                elif defs[x[0]] == (kind, x[1:]):
                    keep.append(x[0])
        r = rename(d, "_%d" % i, keep)
        for kind in ("globals", "externals"):
            have = {x[0] for x in out[kind]}
            out[kind] += [x for x in r[kind] if x[0] not in have]
        out["functions"] += r["functions"]
    return out


def build(desc):
    """irgen.build + module-unique block names (block labels are global symbols of the object file)."""
    m = irgen.build(desc)
    for f in m.functions:
        for b in f.blocks:
            b.name = f.name + "_" + b.name
    return m
