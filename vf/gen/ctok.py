"""A small C preprocessing-token tokenizer (C99 6.4: identifiers, pp-numbers, character
constants, string literals, punctuators, stray characters).  Used to compare preprocessor
outputs as token sequences, independent of white space and line structure.  No ppci import."""
import re

_PUNCT3 = ("...", "<<=", ">>=")
_PUNCT2 = ("->", "++", "--", "<<", ">>", "<=", ">=", "==", "!=", "&&", "||", "*=", "/=", "%=", "+=", "-=",
           "&=", "^=", "|=", "##", "<:", ":>", "<%", "%>", "%:")
_IDENT = re.compile(r"[A-Za-z_][A-Za-z0-9_]*")
_PPNUM = re.compile(r"\.?[0-9](?:[eEpP][+-]|[0-9A-Za-z_.])*")
_STRING = re.compile(r'(?:L|u8|u|U)?"(?:\\.|[^"\\\n])*"')
_CHAR = re.compile(r"(?:L|u|U)?'(?:\\.|[^'\\\n])+'")
_WS = re.compile(r"[ \t\r\n\f\v]+")


def tokenize(text):
    """text -> list of token spellings.  Never fails: an unmatched character is its own token."""
    out = []
    i, n = 0, len(text)
    while i < n:
        m = _WS.match(text, i)
        if m:
            i = m.end()
            continue
        c = text[i]
        m = _STRING.match(text, i) or _CHAR.match(text, i)
        if m:
            out.append(m.group())
            i = m.end()
            continue
        m = _IDENT.match(text, i)
        if m:
            out.append(m.group())
            i = m.end()
            continue
        m = _PPNUM.match(text, i)
        if m:
            out.append(m.group())
            i = m.end()
            continue
        if text.startswith("%:%:", i):
            out.append("%:%:")
            i += 4
            continue
        if text[i:i + 3] in _PUNCT3:
            out.append(text[i:i + 3])
            i += 3
            continue
        if text[i:i + 2] in _PUNCT2:
            out.append(text[i:i + 2])
            i += 2
            continue
        out.append(c)
        i += 1
    return out


def split_at_markers(tokens, prefix):
    """Split a token list at identifier tokens `prefix<k>`; returns {k: [tokens before marker k]}
    and the list of marker numbers in the order seen."""
    units = {}
    order = []
    cur = []
    for t in tokens:
        if t.startswith(prefix) and t[len(prefix):].isdigit():
            k = int(t[len(prefix):])
            units[k] = cur
            order.append(k)
            cur = []
        else:
            cur.append(t)
    return units, order, cur
