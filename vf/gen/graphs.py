"""Exhaustive enumerators for small labelled digraphs (used by C25, C34).

A graph on nodes 0..n-1 is a tuple `adj` of n successor bitmasks (bit j of adj[i] set <=> edge i -> j).
A *code* is the integer whose bits, in the order of `positions(n, loops)`, say which edges are present; it is the
compact form handed to workers and written to witnesses.

Order: callers that want "simplest first" use `rank(n, adj)` = (n, number of edges, row-major code) packed into one
integer; it is passed as the explicit `order` of a violation, so the recorded witness is the smallest failing graph
whatever the work distribution was.

Closed forms used as self-checks (`rooted_count`):
  R(n) = #labelled loop-free digraphs on n nodes in which every node is reachable from node 0
       = 2^(n(n-1)) - sum_{k=1}^{n-1} C(n-1,k-1) * R(k) * 2^((n-k)(n-1))
  (split all digraphs by the set S of nodes reachable from 0, |S| = k: the graph induced on S is one of the R(k), no edge
  leaves S, the (n-k)(n-1) ordered pairs starting outside S are free); with self loops multiply by 2^n.
"""
from math import comb


def positions(n, loops):
    """Edge slots in code-bit order: row-major (i, j), diagonal last-excluded when loops is False."""
    return [(i, j) for i in range(n) for j in range(n) if loops or i != j]


def ncodes(n, loops):
    return 1 << (n * n if loops else n * (n - 1))


def adj_from_code(n, code, loops, _cache={}):
    pos = _cache.get((n, loops))
    if pos is None:
        pos = _cache[(n, loops)] = positions(n, loops)
    adj = [0] * n
    k = 0
    while code:
        if code & 1:
            i, j = pos[k]
            adj[i] |= 1 << j
        code >>= 1
        k += 1
    return tuple(adj)


def code_from_adj(n, adj, loops):
    code = 0
    for k, (i, j) in enumerate(positions(n, loops)):
        if adj[i] >> j & 1:
            code |= 1 << k
    if not loops:
        assert not any(adj[i] >> i & 1 for i in range(n))
    return code


def edges(n, adj):
    return [(i, j) for i in range(n) for j in range(n) if adj[i] >> j & 1]


def nedges(adj):
    return sum(bin(m).count("1") for m in adj)


def rank(n, adj):
    """Simplest-first rank: nodes, then edges, then the row-major n*n code."""
    full = 0
    for i in range(n):
        full |= adj[i] << (i * n)
    return (n << 56) | (nedges(adj) << 48) | full


def closure(adj, start_mask, removed_mask=0):
    """Nodes reachable from the nodes in start_mask (those included, unless removed) never entering removed_mask."""
    seen = start_mask & ~removed_mask
    todo = seen
    while todo:
        low = todo & -todo
        i = low.bit_length() - 1
        todo ^= low
        new = adj[i] & ~seen & ~removed_mask
        seen |= new
        todo |= new
    return seen


def all_reachable(n, adj):
    return closure(adj, 1) == (1 << n) - 1


def reverse(n, adj):
    pre = [0] * n
    for i in range(n):
        m = adj[i]
        while m:
            low = m & -m
            pre[low.bit_length() - 1] |= 1 << i
            m ^= low
    return tuple(pre)


def rooted_count(n, loops):
    r = {}
    for m in range(1, n + 1):
        r[m] = (1 << (m * (m - 1))) - sum(comb(m - 1, k - 1) * r[k] * (1 << ((m - k) * (m - 1))) for k in range(1, m))
    return r[n] * ((1 << n) if loops else 1)


def rooted_codes(n, loops, part=0, nparts=1):
    """Codes (code % nparts == part) of the labelled digraphs on n nodes in which every node is reachable from 0."""
    for code in range(part, ncodes(n, loops), nparts):
        adj = adj_from_code(n, code, loops)
        if closure(adj, 1) == (1 << n) - 1:
            yield code, adj


def all_codes(n, loops, part=0, nparts=1):
    """Every labelled digraph on n nodes (no reachability filter): dependency graphs."""
    for code in range(part, ncodes(n, loops), nparts):
        yield code, adj_from_code(n, code, loops)


def is_acyclic(n, adj):
    """No cycle (a self loop is a cycle)."""
    for i in range(n):
        if closure(adj, adj[i]) >> i & 1:
            return False
    return True


def on_cycle_mask(n, adj):
    m = 0
    for i in range(n):
        if closure(adj, adj[i]) >> i & 1:
            m |= 1 << i
    return m


def outdeg2_canonical(n, loops=True):
    """The CFG-like family: every node has an *ordered* successor list of length 0, 1 or 2 (distinct targets), all nodes
    reachable from node 0, labelled in BFS discovery order (successors visited in list order).  Every rooted graph with
    ordered out-edges appears exactly once; the same unordered graph can appear under several labellings (one per
    successor order that changes the discovery order), which is wanted here: labelling is an explored axis.  Duplicates
    of the same labelled graph (same adjacency, other list order) are removed.  Returns a sorted list of adj tuples."""
    out = set()

    def rec(i, found, lists):
        # node i is the next to receive its successor list; `found` = number of labels discovered so far
        if i == found:  # queue empty: every discovered node has its list
            if found == n:
                adj = tuple(sum(1 << t for t in l) for l in lists)
                out.add(adj)
            return
        if i == n:
            return

        def targets(limit):
            return [t for t in range(limit + 1) if t < n and (loops or t != i)]

        # length 0
        rec(i + 1, found, lists + [()])
        # length 1
        for a in targets(found):
            f1 = found + 1 if a == found else found
            rec(i + 1, f1, lists + [(a,)])
            # length 2
            for b in targets(f1):
                if b == a:
                    continue
                f2 = f1 + 1 if b == f1 else f1
                rec(i + 1, f2, lists + [(a, b)])

    rec(0, 1, [])
    return sorted(out, key=lambda adj: rank(n, adj))


def chain_plus(n, k):
    """Larger structured CFGs: the chain 0>1>...>n-1 plus every set of at most k further edges (any direction, self loops
    included).  Every node is reachable by construction; deep dominator trees with forward, cross and back edges.
    Count: sum_{i<=k} C(n*n-(n-1), i).  Returned simplest first."""
    import itertools
    base = [1 << (i + 1) if i + 1 < n else 0 for i in range(n)]
    slots = [(i, j) for i in range(n) for j in range(n) if j != i + 1]
    out = []
    for size in range(k + 1):
        for extra in itertools.combinations(slots, size):
            adj = list(base)
            for i, j in extra:
                adj[i] |= 1 << j
            out.append(tuple(adj))
    return out


def selfcheck():
    """Counts against the closed form and against a naive second enumeration; returns a dict of the counts."""
    res = {}
    for n, loops in ((1, True), (2, True), (3, True), (3, False), (4, False)):
        got = sum(1 for _ in rooted_codes(n, loops))
        assert got == rooted_count(n, loops), (n, loops, got, rooted_count(n, loops))
        res["rooted n=%d loops=%s" % (n, loops)] = got
    # code <-> adj round trip
    for n, loops in ((3, True), (4, False)):
        for code in range(0, ncodes(n, loops), 7):
            assert code_from_adj(n, adj_from_code(n, code, loops), loops) == code
    # canonical family: every member has out-degree <= 2, all reachable, and for n <= 4 the family hits every
    # isomorphism class (root fixed) of out-degree <= 2 rooted graphs
    import itertools
    for n in (1, 2, 3, 4):
        fam = outdeg2_canonical(n)
        assert len(set(fam)) == len(fam)
        for adj in fam:
            assert all(bin(m).count("1") <= 2 for m in adj) and all_reachable(n, adj)

        def canon(adj):
            best = None
            for perm in itertools.permutations(range(1, n)):
                pm = (0,) + perm
                new = [0] * n
                for i in range(n):
                    for j in range(n):
                        if adj[i] >> j & 1:
                            new[pm[i]] |= 1 << pm[j]
                t = tuple(new)
                if best is None or t < best:
                    best = t
            return best

        classes_family = {canon(a) for a in fam}
        classes_all = {canon(a) for _, a in rooted_codes(n, True) if all(bin(m).count("1") <= 2 for m in a)}
        assert classes_family == classes_all, (n, len(classes_family), len(classes_all))
        res["outdeg2 n=%d" % n] = (len(fam), len(classes_all))
    fam = chain_plus(5, 2)
    assert len(fam) == len(set(fam)) == 1 + 21 + comb(21, 2) and all(all_reachable(5, a) for a in fam)
    res["chain_plus(5,2)"] = len(fam)
    return res


if __name__ == "__main__":
    print(selfcheck())
    for n in (5, 6):
        print(n, len(outdeg2_canonical(n)))
    print(rooted_count(5, False), rooted_count(4, True))
