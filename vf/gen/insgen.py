"""insgen - bounded-exhaustive enumerator of ppci instruction instances.

Shared by C08 (encoding vs reference decoder), C09 (print -> assemble round trip)
and C10 (operand range checks).  Nothing here is random: every list is produced in
a fixed, simplest-first order, so the first counterexample of a class is a small one.

`import ppci` happens inside functions only (the runner puts the repository under
test first on sys.path before calling a check).

Quick tour
----------
    from vf.gen import insgen
    insgen.arch_names()                      # ('arm', 'arm:thumb', 'avr', ..., 'xtensa')
    ai = insgen.get_arch_info("riscv:rvc")   # ArchInfo: .arch (ppci Architecture), .classes [ClassInfo]
    for inst in insgen.instances("riscv", "sweep"):
        inst.cid          # stable class id: class __name__, '#k' appended for the k-th duplicate name
        inst.ops          # operand value tree (see below)
        ins = inst.build()            # a fresh ppci Instruction object (encode() may mutate it: build again)
        inst.text()                   # str(ins): what ppci prints
        inst.encode()                 # bytes of the direct encoding (pseudo instructions are rendered)
        w = inst.witness()            # small JSON: {"arch":..., "cls":..., "ops":[...]}
        insgen.from_witness(w)        # -> equal Instance

Operand value tree (also the JSON witness form; tuples become lists):
    ("r", "x5")                register by name, looked up in the operand's register class
    ("i", -3)                  integer
    ("s", "vflab")             string operand (label / section name)
    ("rs", ("R0", "R1"))       register set (arm push/pop)
    ("c", k, (sub values...))  nested constructor: k-th option of the operand's class tuple
                               (x86 ModRM forms, msp430/m68k/6502/stm8 addressing modes, arm shifts)
A *path* addresses a slot: (i,) is top-level operand i, (i, j) is sub-operand j of the
constructor currently sitting in operand i, and so on.

Enumeration rule (`class_instances`)
------------------------------------
For every class two *base* vectors A and B are searched (simplest candidates first, different
registers for different operands, B differing from A wherever the domain allows).  A class with
no encodable base is listed in `ArchInfo.unbuildable` (never silently dropped).
Domains: registers - all registers of the operand's register class; strings - LABELS;
integers - the effective width n of the operand is *probed* on the real encoder (first power of two
that is rejected or aliases a smaller value, both signs, after skipping alignment rejects):
n <= full_bits (default 12): every value in [-2^(n-1), 2^n) (both signednesses, the encoder decides);
otherwise the lattice {0, +-1, +-2^k, +-(2^k-1), +-(2^k+1), +-(2^k +- scale)} k <= n;
"length-like" operands (ds/.zero: output length grows with the value) get a small fixed list;
nested constructors - for every option a base sub-vector, then each sub-slot sweeps its domain (sum).
mode "sweep"  : for base in (A, B): each operand sweeps its domain, others stay at base (sum, not product);
                nested constructor operands sweep their sub-slots under base A only (under B: one instance per option).
mode "product": sweep, plus the full product for classes with <= 2 operands (reduced domains when the
                product would exceed PRODUCT_CAP), plus for classes with > 2 operands every pair of
                operands over reduced domains (integers wider than 6 bits -> lattice) with the rest at base A.
Only instances whose *direct encoding does not raise* are yielded (valid_only=True); rejected
candidates are counted in ClassInfo.stats.

C10 helpers
-----------
    int_operands(ci)    -> [IntOperand]: every integer slot of the class, including the slots of every
                           nested constructor option, each with a valid base instance, the probed
                           IntInfo (n, scale, ...) and the static token field if the operand is bound
                           through `patterns` (FieldInfo: name, bits, declared signedness, concat, transform).
    boundary_values(n)  -> boundary set of an n-bit field for both signednesses (DESIGN C10).
    c10_values(io)      -> boundary sets of the probed and the static width, plus +-2^k neighbours for
                           every k <= 33 and k in (63, 64), simplest first.
"""

LABELS = ("vflab", "Vf_lab2")
INT_CANDS_A = (1, 2, 4, 8, 0, 3, 16, 5, 32, -1, -2, -4, 64, 128, -8, 256, 6, 7, 12, 24, 512, 1024, 4096, 65536)
INT_CANDS_B = (2, 4, 8, 1, 16, 3, 0, 32, 6, -2, -4, -1, 64, 128, -8, 256, 5, 7, 12, 24, 512, 1024, 4096, 65536)
LENLIKE_VALUES = (0, 1, 2, 3, 4, 7, 8, 16)
SEED_CAP = 30000          # encode attempts while searching one base vector
PRODUCT_CAP = 70000       # largest full product emitted for one class
MAX_LEN = 32              # an "instruction" longer than this is a length-like data directive

# option variants that have an instruction set of their own
_VARIANTS = {"arm": ("thumb",), "riscv": ("rvc", "rvf", "rvfx"), "x86_64": ("x87",)}

_CACHE = {}


def arch_names():
    """All ppci targets with an instruction set, plus the option variants with their own ISA."""
    from ppci.arch.target_list import target_names
    from ppci.api import get_arch
    out = []
    for n in target_names:
        try:
            a = get_arch(n)
        except Exception:  # noqa
            continue
        if not getattr(a, "isa", None) or not a.isa.instructions or not hasattr(a, "assembler"):
            continue
        out.append(n)
        for v in _VARIANTS.get(n, ()):
            if v in a.option_names:
                out.append(n + ":" + v)
    return tuple(out)


# ------------------------------------------------------------------ value trees

def tget(ops, path):
    v = ops[path[0]]
    for j in path[1:]:
        v = v[2][j]
    return v


def treplace(ops, path, val):
    i = path[0]
    if len(path) == 1:
        return ops[:i] + (val,) + ops[i + 1:]
    c = ops[i]
    return ops[:i] + (("c", c[1], treplace(c[2], path[1:], val)),) + ops[i + 1:]


def to_json(v):
    if isinstance(v, tuple):
        return [to_json(x) for x in v]
    return v


def from_json(v):
    if isinstance(v, list):
        return tuple(from_json(x) for x in v)
    return v


def leaves(ops, prefix=()):
    """[(path, value)] of all non-constructor slots of a value tree."""
    out = []
    for i, v in enumerate(ops):
        if v[0] == "c":
            out.extend(leaves(v[2], prefix + (i,)))
        else:
            out.append((prefix + (i,), v))
    return out


def order_key(v):
    """simplest-first order on integers"""
    return (abs(v), v < 0)


# ------------------------------------------------------------------ specs

class OpSpec:
    """One formal argument of a syntax."""
    __slots__ = ("name", "kind", "operand", "regs", "regmap", "options", "setcls")

    def __init__(self, operand, arch_regs):
        from ppci.arch.registers import Register
        from ppci.arch.encoding import Constructor
        self.operand = operand
        self.name = operand._name
        cl = operand._cls
        self.regs = self.regmap = self.options = self.setcls = None
        if isinstance(cl, tuple):
            self.kind = "c"
            self.options = [CtorInfo(c, arch_regs) for c in cl]
        elif isinstance(cl, type) and issubclass(cl, Register):
            self.kind = "r"
            self.regs = list(cl.all_registers())
            self.regmap = {r.name: r for r in self.regs}
        elif cl is int:
            self.kind = "i"
        elif cl is str:
            self.kind = "s"
        elif isinstance(cl, type) and issubclass(cl, (set, frozenset)):
            self.kind = "rs"
            self.setcls = cl
            self.regs = list(arch_regs())
            self.regmap = {r.name: r for r in self.regs}
        elif isinstance(cl, type) and issubclass(cl, Constructor):
            self.kind = "c"
            self.options = [CtorInfo(cl, arch_regs)]
        else:
            raise NotImplementedError("operand class %r" % (cl,))

    def make(self, val):
        k = val[0]
        if k == "r":
            return self.regmap[val[1]]
        if k == "i" or k == "s":
            return val[1]
        if k == "c":
            ci = self.options[val[1]]
            return ci.cls(*[o.make(v) for o, v in zip(ci.operands, val[2])])
        if k == "rs":
            return self.setcls(self.regmap[n] for n in val[1])
        raise ValueError(val)


class CtorInfo:
    __slots__ = ("cls", "operands")

    def __init__(self, cls, arch_regs):
        self.cls = cls
        self.operands = [OpSpec(o, arch_regs) for o in cls.syntax.formal_arguments]


class IntInfo:
    """Probed behaviour of one integer slot (in the context of a base instance).

    n       effective width in bits of the operand *value* (includes scaling), None if no power of two is accepted
    scale   log2 of the smallest accepted power of two (alignment)
    n_pos / n_neg  widths seen on the positive / negative side
    neg_ok  some negative power of two is accepted
    lenlike output length grows with the value (ds / .zero)"""
    __slots__ = ("n", "scale", "n_pos", "n_neg", "neg_ok", "lenlike")

    def __repr__(self):
        return "IntInfo(n=%r scale=%r pos=%r neg=%r neg_ok=%r lenlike=%r)" % (
            self.n, self.scale, self.n_pos, self.n_neg, self.neg_ok, self.lenlike)


class FieldInfo:
    """Static token field bound to an operand through `patterns`."""
    __slots__ = ("field", "bits", "signed", "concat", "transform", "token")

    def __repr__(self):
        return "FieldInfo(%s bits=%d signed=%r concat=%r transform=%r)" % (self.field, self.bits, self.signed, self.concat, self.transform)


def direct_bytes(ins):
    """Bytes of the direct encoding; pseudo (artificial) instructions are rendered first."""
    from ppci.arch.generic_instructions import ArtificialInstruction
    if isinstance(ins, ArtificialInstruction):
        return b"".join(direct_bytes(x) for x in ins.render())
    return ins.encode()


class ClassInfo:
    def __init__(self, arch_name, cid, cls, arch_regs):
        self.arch_name = arch_name
        self.cid = cid
        self.cls = cls
        self.operands = [OpSpec(o, arch_regs) for o in cls.syntax.formal_arguments]
        self.stats = {"tried": 0, "rejected": 0}
        self._seeds = None
        self._dom = {}

    def __repr__(self):
        return "<%s %s>" % (self.arch_name, self.cid)

    # -- building
    def build(self, ops):
        return self.cls(*[o.make(v) for o, v in zip(self.operands, ops)])

    def try_encode(self, ops):
        """bytes, or None when the direct encoding raises"""
        self.stats["tried"] += 1
        try:
            return direct_bytes(self.build(ops))
        except Exception:  # noqa
            self.stats["rejected"] += 1
            return None

    def spec_at(self, ops, path):
        specs = self.operands
        v = ops
        spec = None
        for d, j in enumerate(path):
            spec = specs[j]
            val = v[j]
            if d + 1 < len(path):
                specs = spec.options[val[1]].operands
                v = val[2]
        return spec

    def slot_name(self, ops, path):
        specs = self.operands
        v = ops
        parts = []
        for d, j in enumerate(path):
            spec = specs[j]
            val = v[j]
            parts.append(spec.name)
            if d + 1 < len(path):
                parts[-1] += ":" + spec.options[val[1]].cls.__name__
                specs = spec.options[val[1]].operands
                v = val[2]
        return "/".join(parts)

    # -- candidates for base vectors
    def _cands(self, spec, variant, j):
        if spec.kind == "r":
            R = len(spec.regs)
            if variant == 0:
                order = [(1 + j + t) % R for t in range(R)]
            else:
                order = [(R - 2 - j - t) % R for t in range(R)]
            return [("r", spec.regs[k].name) for k in order]
        if spec.kind == "i":
            return [("i", v) for v in (INT_CANDS_A if variant == 0 else INT_CANDS_B)]
        if spec.kind == "s":
            ls = LABELS if variant == 0 else LABELS[::-1]
            return [("s", x) for x in ls]
        if spec.kind == "rs":
            sets = _regsets(spec)
            if variant:
                sets = sets[1:] + sets[:1]
            return sets
        # nested: per option a few sub vectors, options interleaved (variant rotates the options)
        per = []
        for o, cti in enumerate(spec.options):
            subc = [self._cands(s, variant, j + 1 + k) for k, s in enumerate(cti.operands)]
            vecs = [("c", o, vec) for vec in _simplest_product(subc, 8)]
            per.append(vecs)
        if variant and len(per) > 1:
            per = per[1:] + per[:1]
        out = []
        for t in range(max(len(p) for p in per) if per else 0):
            for p in per:
                if t < len(p):
                    out.append(p[t])
        return out

    def seeds(self):
        """(A, B): two valid base vectors (B may equal A, both None if nothing encodes)."""
        if self._seeds is None:
            a = self._find_seed(0, None)
            b = self._find_seed(1, a) if a is not None else None
            if b is None:
                b = a
            self._seeds = (a, b)
        return self._seeds

    def _find_seed(self, variant, avoid):
        cands = [self._cands(s, variant, j) for j, s in enumerate(self.operands)]
        if avoid is not None:
            # prefer values different from A in every slot
            cands = [[c for c in cs if c != avoid[j]] + [c for c in cs if c == avoid[j]] for j, cs in enumerate(cands)]
        for n, vec in enumerate(_simplest_product(cands, SEED_CAP)):
            if self.try_encode(vec) is not None:
                return vec
        return None

    # -- integer probing
    def probe_int(self, base, path):
        key = ("probe", base, path)
        if key in self._dom:
            return self._dom[key]
        info = IntInfo()
        info.lenlike = False
        info.neg_ok = False

        def enc(v):
            return self.try_encode(treplace(base, path, ("i", v)))

        e0 = enc(0)
        seen = set()
        if e0 is not None:
            seen.add(e0)
        k0 = None
        n_pos = None
        for k in range(0, 66):
            b = enc(1 << k)
            if b is None:
                if k0 is not None:
                    n_pos = k
                    break
                continue
            if len(b) > MAX_LEN:
                info.lenlike = True
                break
            if k0 is None:
                k0 = k
            if b in seen:
                n_pos = k
                break
            seen.add(b)
        info.scale = k0
        info.n_pos = n_pos
        n_neg = 0
        if not info.lenlike:
            nseen = set()
            if e0 is not None:
                nseen.add(e0)
            started = False
            for k in range(0, 66):
                b = enc(-(1 << k))
                if b is None:
                    if started:
                        break
                    if k0 is not None and k > k0 + 2:
                        break
                    continue
                if b in nseen:
                    break
                started = True
                info.neg_ok = True
                nseen.add(b)
                n_neg = k + 1
        info.n_neg = n_neg
        if info.lenlike or (n_pos is None and not n_neg):
            info.n = None
        else:
            info.n = max(n_pos or 0, n_neg) or None
        self._dom[key] = info
        return info

    def int_domain(self, base, path, full_bits, reduced):
        info = self.probe_int(base, path)
        if info.lenlike:
            return [("i", v) for v in LENLIKE_VALUES]
        if info.n is None:
            vals = sorted(set(INT_CANDS_A), key=order_key)
        elif info.n <= (6 if reduced else full_bits):
            vals = sorted(range(-(1 << (info.n - 1)), 1 << info.n), key=order_key)
        else:
            vals = lattice(info.n, info.scale or 0)
        return [("i", v) for v in vals]

    # -- domains
    def domain(self, base, path, full_bits=12, reduced=False):
        """All candidate values for the slot at `path` (context: base).  Not yet validity-filtered."""
        key = (base, path, full_bits, reduced)
        if key in self._dom:
            return self._dom[key]
        spec = self.spec_at(base, path)
        if spec.kind == "r":
            out = [("r", r.name) for r in spec.regs]
        elif spec.kind == "s":
            out = [("s", x) for x in LABELS]
        elif spec.kind == "rs":
            out = _regsets(spec)
        elif spec.kind == "i":
            out = self.int_domain(base, path, full_bits, reduced)
        else:
            out = []
            cur = tget(base, path)
            for o, cti in enumerate(spec.options):
                sub = self._option_seed(base, path, spec, o, cur)
                if sub is None:
                    continue
                out.append(sub)
                b2 = treplace(base, path, sub)
                for j in range(len(cti.operands)):
                    for v in self.domain(b2, path + (j,), full_bits, reduced):
                        if v[0] == "c":
                            nv = ("c", o, sub[2][:j] + (v,) + sub[2][j + 1:])
                        else:
                            nv = ("c", o, sub[2][:j] + (v,) + sub[2][j + 1:])
                        out.append(nv)
            out = _dedupe(out)
        self._dom[key] = out
        return out

    def _option_seed(self, base, path, spec, o, cur):
        """A value ("c", o, sub) for which the whole instruction encodes (None if there is none)."""
        key = ("optseed", base, path, o)
        if key in self._dom:
            return self._dom[key]
        res = None
        if cur[0] == "c" and cur[1] == o:
            res = cur
        else:
            cti = spec.options[o]
            subc = [self._cands(s, 0, len(path) + k) for k, s in enumerate(cti.operands)]
            for vec in _simplest_product(subc, 3000):
                val = ("c", o, vec)
                if self.try_encode(treplace(base, path, val)) is not None:
                    res = val
                    break
        self._dom[key] = res
        return res


def _regsets(spec):
    """Register sets for push/pop style operands: singletons, adjacent pairs, runs, everything low."""
    names = [r.name for r in sorted(spec.regs, key=lambda r: r.num)]
    out = [(n,) for n in names]
    out += [tuple(names[i:i + 2]) for i in range(len(names) - 1)]
    out += [tuple(names[:k]) for k in (3, 4, 8) if k <= len(names)]
    out += [tuple(names[:8]) + (n,) for n in names[8:]]
    out += [(names[0], names[2]), (names[1], names[3], names[5])] if len(names) > 5 else []
    return [("rs", s) for s in _dedupe(out)]


def _dedupe(xs):
    seen = set()
    out = []
    for x in xs:
        if x not in seen:
            seen.add(x)
            out.append(x)
    return out


def _simplest_product(lists, cap):
    """Vectors of the product of `lists`, by increasing sum of indices, at most `cap` of them."""
    n = len(lists)
    if n == 0:
        yield ()
        return
    if any(not l for l in lists):
        return
    lens = [len(l) for l in lists]
    total_max = sum(x - 1 for x in lens)
    count = 0

    def comps(k, t):
        # index vectors for lists[k:] with sum t
        if k == n - 1:
            if t < lens[k]:
                yield (t,)
            return
        rest = sum(x - 1 for x in lens[k + 1:])
        for i in range(max(0, t - rest), min(t, lens[k] - 1) + 1):
            for tail in comps(k + 1, t - i):
                yield (i,) + tail

    for t in range(total_max + 1):
        for idx in comps(0, t):
            yield tuple(l[i] for l, i in zip(lists, idx))
            count += 1
            if count >= cap:
                return


def lattice(n, scale=0):
    """{0, +-1, +-2^k, +-(2^k-1), +-(2^k+1), +-(2^k +- 2^scale)} for k <= n, inside [-2^(n-1), 2^n), simplest first."""
    s = 1 << scale
    vs = {0, 1, -1, s, -s}
    for k in range(1, n + 1):
        p = 1 << k
        for d in (0, 1, -1, s, -s):
            vs.add(p + d)
            vs.add(-p + d)
            vs.add(-(p + d))
    lo, hi = -(1 << (n - 1)), (1 << n)
    return sorted((v for v in vs if lo <= v < hi), key=order_key)


# ------------------------------------------------------------------ arch info

class ArchInfo:
    def __init__(self, name):
        from ppci.api import get_arch
        self.name = name
        self.arch = get_arch(name)
        regs_cache = []

        def arch_regs():
            # registers for set-valued operands: the largest register class used by the ISA
            if not regs_cache:
                from ppci.arch.registers import Register
                best = []
                for c in self.arch.isa.instructions:
                    if not c.syntax:
                        continue
                    for f in c.syntax.formal_arguments:
                        cl = f._cls
                        if isinstance(cl, type) and issubclass(cl, Register):
                            rs = list(cl.all_registers())
                            if len(rs) > len(best):
                                best = rs
                regs_cache.append(best)
            return regs_cache[0]

        self.classes = []
        self.by_cid = {}
        self.skipped = []     # classes without syntax (not assemblable, not part of the bound)
        counts = {}
        for cls in self.arch.isa.instructions:
            nm = cls.__name__
            k = counts.get(nm, 0)
            counts[nm] = k + 1
            cid = nm if k == 0 else "%s#%d" % (nm, k)
            if not cls.syntax:
                self.skipped.append(cid)
                continue
            ci = ClassInfo(name, cid, cls, arch_regs)
            self.classes.append(ci)
            self.by_cid[cid] = ci

    @property
    def unbuildable(self):
        return [ci.cid for ci in self.classes if ci.seeds()[0] is None]


def get_arch_info(name):
    if name not in _CACHE:
        _CACHE[name] = ArchInfo(name)
    return _CACHE[name]


# ------------------------------------------------------------------ instances

class Instance:
    __slots__ = ("ci", "ops")

    def __init__(self, ci, ops):
        self.ci = ci
        self.ops = ops

    @property
    def arch_name(self):
        return self.ci.arch_name

    @property
    def cid(self):
        return self.ci.cid

    @property
    def cls(self):
        return self.ci.cls

    def build(self):
        return self.ci.build(self.ops)

    def text(self):
        return str(self.build())

    def encode(self):
        return direct_bytes(self.build())

    def replace(self, path, value):
        return Instance(self.ci, treplace(self.ops, path, value))

    def leaves(self):
        return leaves(self.ops)

    def witness(self):
        return {"arch": self.ci.arch_name, "cls": self.ci.cid, "ops": to_json(self.ops)}

    def __repr__(self):
        return "<%s %s %r>" % (self.ci.arch_name, self.ci.cid, self.ops)

    def __eq__(self, other):
        return self.ci is other.ci and self.ops == other.ops

    def __hash__(self):
        return hash((self.ci.cid, self.ops))


def from_witness(w):
    ai = get_arch_info(w["arch"])
    return Instance(ai.by_cid[w["cls"]], from_json(w["ops"]))


def class_instances(ci, mode="sweep", full_bits=12, valid_only=True):
    """Instances of one class, simplest first (see module docstring for the rule)."""
    a, b = ci.seeds()
    if a is None:
        return
    seen = set()

    def emit(ops):
        if ops in seen:
            return None
        seen.add(ops)
        if valid_only and ci.try_encode(ops) is None:
            return None
        return Instance(ci, ops)

    for ops in (a, b):
        r = emit(ops)
        if r is not None:
            yield r
    nops = len(ci.operands)
    doms = [ci.domain(a, (i,), full_bits, False) for i in range(nops)]
    for bi, base in enumerate((a, b)):
        for i in range(nops):
            dom = doms[i]
            if bi == 1 and ci.operands[i].kind == "c":
                # nested constructors sweep their sub-slots under base A only; under B one instance per option
                first = {}
                for v in dom:
                    first.setdefault(v[1], v)
                dom = list(first.values())
            for v in dom:
                r = emit(treplace(base, (i,), v))
                if r is not None:
                    yield r
    if mode != "product" or nops < 2:
        return
    rdoms = [ci.domain(a, (i,), full_bits, True) for i in range(nops)]
    if nops == 2:
        size = len(doms[0]) * len(doms[1])
        d0, d1 = (doms[0], doms[1]) if size <= PRODUCT_CAP else (rdoms[0], rdoms[1])
        if len(d0) * len(d1) > PRODUCT_CAP:
            # keep the larger domain, reduce the other to its first values (still deterministic, stated in stats)
            ci.stats["product_truncated"] = 1
            while len(d0) * len(d1) > PRODUCT_CAP:
                if len(d0) >= len(d1):
                    d0 = d0[:len(d0) // 2]
                else:
                    d1 = d1[:len(d1) // 2]
        for v0 in d0:
            for v1 in d1:
                r = emit((v0, v1))
                if r is not None:
                    yield r
        return
    for i in range(nops):
        for j in range(i + 1, nops):
            di, dj = rdoms[i], rdoms[j]
            if len(di) * len(dj) > PRODUCT_CAP:
                ci.stats["product_truncated"] = 1
                while len(di) * len(dj) > PRODUCT_CAP:
                    if len(di) >= len(dj):
                        di = di[:len(di) // 2]
                    else:
                        dj = dj[:len(dj) // 2]
            for vi in di:
                bi = treplace(a, (i,), vi)
                for vj in dj:
                    r = emit(treplace(bi, (j,), vj))
                    if r is not None:
                        yield r


def instances(arch_name, mode="sweep", full_bits=12, classes=None, valid_only=True):
    """All instances of all classes (with a syntax) of the ISA of `arch_name`, class by class in ISA order.

    classes: optional iterable of class ids to restrict to."""
    ai = get_arch_info(arch_name)
    want = set(classes) if classes is not None else None
    for ci in ai.classes:
        if want is not None and ci.cid not in want:
            continue
        yield from class_instances(ci, mode, full_bits, valid_only)


# ------------------------------------------------------------------ C10 helpers

class IntOperand:
    """One integer slot of a class: .ci, .base (valid ops vector), .path, .name, .info (IntInfo), .field (FieldInfo|None)."""
    __slots__ = ("ci", "base", "path", "name", "info", "field")

    def instance(self, v):
        return Instance(self.ci, treplace(self.base, self.path, ("i", v)))

    def __repr__(self):
        return "<IntOperand %s %s %s %r %r>" % (self.ci.arch_name, self.ci.cid, self.name, self.info, self.field)


def int_operands(ci):
    """Every integer slot of the class, also inside every option of nested constructor operands."""
    a, _ = ci.seeds()
    out = []
    if a is None:
        return out

    def walk(base, path_prefix, specs, vals):
        for j, spec in enumerate(specs):
            path = path_prefix + (j,)
            if spec.kind == "i":
                io = IntOperand()
                io.ci = ci
                io.base = base
                io.path = path
                io.name = ci.slot_name(base, path)
                io.info = ci.probe_int(base, path)
                io.field = static_field(ci, base, path)
                out.append(io)
            elif spec.kind == "c":
                cur = tget(base, path)
                for o, cti in enumerate(spec.options):
                    sub = ci._option_seed(base, path, spec, o, cur)
                    if sub is None:
                        continue
                    b2 = treplace(base, path, sub)
                    walk(b2, path, cti.operands, sub[2])

    walk(a, (), ci.operands, a)
    return out


def static_field(ci, base, path):
    """FieldInfo of the token field an integer operand is bound to through `patterns`, or None
    (custom encode / set_user_patterns)."""
    from ppci.arch.encoding import VariablePattern, Transform, Constructor
    spec = ci.spec_at(base, path)
    # the constructor object owning the slot
    ins = ci.build(base)
    owner = ins
    specs = ci.operands
    v = base
    for d, j in enumerate(path[:-1]):
        owner = specs[j].operand.__get__(owner)
        specs = specs[j].options[v[j][1]].operands
        v = v[j][2]
    try:
        tokens = ins.get_tokens()
    except Exception:  # noqa
        return None
    for pat in Constructor.dict_to_patterns(type(owner).patterns):
        if not isinstance(pat, VariablePattern):
            continue
        prop = pat.prop
        if prop.source is not spec.operand:
            continue
        for tok in tokens.tokens:
            p = type(tok).__dict__.get(pat.field)
            if p is None:
                for klass in type(tok).__mro__:
                    if pat.field in klass.__dict__:
                        p = klass.__dict__[pat.field]
                        break
            if p is not None and hasattr(p, "_bitsize"):
                fi = FieldInfo()
                fi.field = pat.field
                fi.bits = p._bitsize
                fi.signed = p._signed
                fi.concat = _is_concat(p)
                fi.transform = type(prop).__name__ if isinstance(prop, Transform) else None
                fi.token = type(tok).__name__
                return fi
    return None


def _is_concat(p):
    fset = p.fset
    return bool(fset is not None and fset.__closure__ and "partials" in fset.__code__.co_freevars)


def boundary_values(n):
    """Boundary set of an n-bit field, around both the signed and the unsigned range (DESIGN C10)."""
    smin, smax = -(1 << (n - 1)), (1 << (n - 1)) - 1
    umax = (1 << n) - 1
    vs = {smin - 1, smin, -1, 0, 1, smax, smax + 1, umax, umax + 1, -(1 << n), -(1 << n) - 1, -(1 << n) + 1,
          smin + 1, smax - 1, umax - 1}
    return sorted(vs, key=order_key)


def c10_values(io):
    """Values C10 feeds to an integer slot: boundary sets of the probed and static widths (x their scale),
    plus 2^k, 2^k +- 1, 2^k +- scale and negatives for all k <= 33 and k in (63, 64)."""
    vs = set()
    s = 1 << (io.info.scale or 0)
    widths = set()
    if io.info.n:
        widths.add(io.info.n)
        if io.info.scale:
            widths.add(io.info.n - io.info.scale)
    if io.field is not None:
        widths.add(io.field.bits)
    for n in widths:
        for v in boundary_values(n):
            vs.add(v)
            vs.add(v * s)
    for k in list(range(0, 34)) + [63, 64]:
        p = 1 << k
        for d in (0, 1, -1, s, -s):
            vs.add(p + d)
            vs.add(-(p + d))
    return sorted(vs, key=order_key)


def counts(arch_name, mode="sweep", full_bits=12):
    """{class id: number of instances} - the enumerator's own count, for cross-checking consumers."""
    out = {}
    for inst in instances(arch_name, mode, full_bits):
        out[inst.cid] = out.get(inst.cid, 0) + 1
    return out
