"""Feature-directed IR modules for the serialisation round trips (C15 text, C16 JSON): "one feature at a time and in pairs".

An *atom* is one feature of the IR data model, identified by a short string id such as `bin:rol:u16`, `const:f64:1e+300`,
`glob:local:8:8:ptrfn` or `order:fwd:bin:i64`.  `module_of([atom ids])` gives the module *description* that contains exactly
those atoms (straight-line atoms append a snippet to the function `f(i32 p0, i32 p1) -> i32`, results go to the global
`snk` so that the reference interpreter observes them; structural atoms add their own globals / externals / functions) and
`build(desc)` turns a description into a ppci ir.Module.  The description format is irgen's (see vf/gen/irgen.py) plus

  externals  [name, "var"]                                  ExternalVariable
  globals    [name, size, align, init, binding]             init: None | hex | [hex | ["ptr", label], ...]; binding "global"|"local"
  function   "binding": "local", "pnames": [...], "bnames": [...], "vnames": {"3": "tmp"}   explicit names
             "order": [0, 2, 1]   listing order of the blocks (numbering of %n follows the index order)
  types      "ptr", "blob:<size>:<align>" (parameters)
  instr      ["asm", template, [inputs], [outputs], [clobbers]]

`singles()` is every atom; `alphabet(level)` is the representative subset used for pairs (level 1) and triples (level 0):
every instruction kind, every operator, every type, every constant class, every global/external/binding kind occurs in it.
"""
import itertools

from . import irgen

INT_TYPES = irgen.INT_TYPES
FLOAT_TYPES = irgen.FLOAT_TYPES
TYPES = INT_TYPES + FLOAT_TYPES + ["ptr"]
INTLIKE = INT_TYPES + ["ptr"]
ALL_BINOPS = ["+", "-", "*", "/", "%", "|", "&", "^", "<<", ">>", "rol", "ror"]
FLOAT_BINOPS = ["+", "-", "*", "/"]
CONDS = ["==", "!=", "<", ">", "<=", ">="]

# float constant alphabet: (label used in the atom id, value).  repr() of the value is what ir.Const.__str__ prints.
FLOAT_CONSTS = [
    ("0.0", 0.0), ("1.0", 1.0), ("-1.0", -1.0), ("0.5", 0.5), ("-1.5", -1.5), ("2.5", 2.5), ("-0.0", -0.0), ("0.1", 0.1),
    ("16777217.0", 16777217.0), ("2147483648.0", 2.0 ** 31), ("-2147483649.0", -(2.0 ** 31) - 1), ("1e15", 1e15), ("0.0001", 0.0001),
    ("2p63", 2.0 ** 63), ("1e16", 1e16), ("1e-05", 1e-05), ("1e-40", 1e-40), ("1.5e-40", 1.5e-40), ("1e300", 1e300), ("-1e300", -1e300),
    ("-2.5e-300", -2.5e-300), ("5e-324", 5e-324), ("max", 1.7976931348623157e308), ("f32max", 3.4028234663852886e38),
    ("inf", float("inf")), ("-inf", float("-inf")), ("nan", float("nan")), ("int3", 3), ("int-7", -7),
]
FLOAT_BY_LABEL = dict(FLOAT_CONSTS)


def ty_of(name):
    from ppci import ir
    if name == "ptr":
        return ir.ptr
    if name.startswith("blob:"):
        _, s, a = name.split(":")
        return ir.BlobDataTyp(int(s), int(a))
    return ir.get_ty(name)


def build(desc):
    """Description -> ir.Module (superset of irgen.build)."""
    from ppci import ir
    m = ir.Module(desc.get("name", "m"))
    g = {}
    for e in desc.get("externals", []):
        if len(e) == 2 and e[1] == "var":
            x = ir.ExternalVariable(e[0])
        elif e[2] is None:
            x = ir.ExternalProcedure(e[0], [ty_of(t) for t in e[1]])
        else:
            x = ir.ExternalFunction(e[0], [ty_of(t) for t in e[1]], ty_of(e[2]))
        m.add_external(x)
        g[e[0]] = x
    for gd in desc.get("globals", []):
        name, size, align, init, binding = (list(gd) + [None, None])[:5]
        if init is None:
            value = None
        elif isinstance(init, str):
            value = bytes.fromhex(init)
        else:
            value = tuple(bytes.fromhex(p) if isinstance(p, str) else (ir.ptr, p[1]) for p in init)
        v = ir.Variable(name, ir.Binding.LOCAL if binding == "local" else ir.Binding.GLOBAL, size, align, value=value)
        m.add_variable(v)
        g[name] = v
    funcs = []
    for fd in desc["functions"]:
        binding = ir.Binding.LOCAL if fd.get("binding") == "local" else ir.Binding.GLOBAL
        if fd.get("ret") is None:
            f = ir.Procedure(fd["name"], binding)
        else:
            f = ir.Function(fd["name"], binding, ty_of(fd["ret"]))
        m.add_function(f)
        g[fd["name"]] = f
        funcs.append((fd, f))
    for fd, f in funcs:
        params = []
        pnames = fd.get("pnames") or []
        for i, t in enumerate(fd["params"]):
            p = ir.Parameter(pnames[i] if i < len(pnames) else "p%d" % i, ty_of(t))
            f.add_parameter(p)
            params.append(p)
        blocks = []
        bnames = fd.get("bnames") or []
        for i in range(len(fd["blocks"])):
            b = ir.Block(bnames[i] if i < len(bnames) else "b%d" % i)
            f.add_block(b)
            blocks.append(b)
        f.entry = blocks[0]
        vnames = fd.get("vnames") or {}
        vals = []
        phis = []

        def ref(r):
            if r[0] == "p":
                return params[int(r[1:])]
            if r[0] == "%":
                return vals[int(r[1:])]
            if r[0] == "@":
                return g[r[1:]]
            raise ValueError(r)

        for bi, body in enumerate(fd["blocks"]):
            b = blocks[bi]
            for ins in body:
                k = ins[0]
                name = vnames.get(str(len(vals)), "v%d" % len(vals))
                n = None
                if k == "const":
                    n = ir.Const(ins[2], name, ty_of(ins[1]))
                elif k == "bin":
                    n = ir.Binop(ref(ins[2]), ins[1], ref(ins[3]), name, ty_of(ins[4]))
                elif k == "un":
                    n = ir.Unop(ins[1], ref(ins[2]), name, ty_of(ins[3]))
                elif k == "cast":
                    n = ir.Cast(ref(ins[2]), name, ty_of(ins[1]))
                elif k == "alloc":
                    n = ir.Alloc(name, ins[1], ins[2])
                elif k == "addr":
                    n = ir.AddressOf(ref(ins[1]), name)
                elif k == "load":
                    n = ir.Load(ref(ins[2]), name, ty_of(ins[1]), volatile=bool(ins[3]) if len(ins) > 3 else False)
                elif k == "store":
                    b.add_instruction(ir.Store(ref(ins[1]), ref(ins[2]), volatile=bool(ins[3]) if len(ins) > 3 else False))
                elif k == "memcpy":
                    b.add_instruction(ir.CopyBlob(ref(ins[1]), ref(ins[2]), ins[3]))
                elif k == "call":
                    args = [ref(a) for a in ins[2]]
                    if ins[3] is None:
                        b.add_instruction(ir.ProcedureCall(ref(ins[1]), args))
                    else:
                        n = ir.FunctionCall(ref(ins[1]), args, name, ty_of(ins[3]))
                elif k == "phi":
                    n = ir.Phi(name, ty_of(ins[1]))
                    phis.append((n, ins[2]))
                elif k == "undef":
                    n = ir.Undefined(name, ty_of(ins[1]))
                elif k == "lit":
                    n = ir.LiteralData(bytes.fromhex(ins[1]), name)
                elif k == "asm":
                    a = ir.InlineAsm(ins[1], list(ins[4]))
                    for r in ins[2]:
                        a.add_input_variable(ref(r))
                    for r in ins[3]:
                        a.add_output_variable(ref(r))
                    b.add_instruction(a)
                elif k == "jmp":
                    b.add_instruction(ir.Jump(blocks[ins[1]]))
                elif k == "cjmp":
                    b.add_instruction(ir.CJump(ref(ins[1]), ins[2], ref(ins[3]), blocks[ins[4]], blocks[ins[5]]))
                elif k == "ret":
                    b.add_instruction(ir.Return(ref(ins[1])))
                elif k == "exit":
                    b.add_instruction(ir.Exit())
                else:
                    raise ValueError(k)
                if n is not None:
                    b.add_instruction(n)
                    if str(len(vals)) in vnames:
                        n.name = name  # explicit names are kept verbatim (they may coincide with a parameter or a global)
                    vals.append(n)
        for n, inputs in phis:
            for bi, v in inputs:
                n.set_incoming(blocks[bi], ref(v))
        if "order" in fd:
            f.blocks[:] = [blocks[i] for i in fd["order"]]
    return m


# ----------------------------------------------------------------------------------------------- module builder

class MB:
    """Accumulates the description of one module while atoms are applied in order."""

    def __init__(self):
        self.externals = []
        self.globals = [["snk", 8, 8, None]]
        self.before = []   # functions listed before f
        self.after = []    # functions listed after f
        self.body = []     # the single block of f(i32 p0, i32 p1) -> i32
        self.nv = 0
        self.k = 0         # atom index, suffix for names
        self.have = {"snk"}

    def e(self, *ins):
        """Append a value-producing instruction to f; return its reference."""
        self.body.append(list(ins))
        self.nv += 1
        return "%%%d" % (self.nv - 1)

    def s(self, *ins):
        """Append an instruction without a value."""
        self.body.append(list(ins))

    def sink(self, ref, vol=False):
        self.s("store", ref, "@snk", vol)

    def nm(self, base):
        return "%s%d" % (base, self.k)

    def glob(self, name, size, align, init=None, binding=None):
        if name not in self.have:
            self.have.add(name)
            self.globals.append([name, size, align, init, binding] if binding else [name, size, align, init])
        return "@" + name

    def ext(self, name, argtys, ret):
        if name not in self.have:
            self.have.add(name)
            self.externals.append([name, argtys, ret])
        return "@" + name

    def extvar(self, name):
        if name not in self.have:
            self.have.add(name)
            self.externals.append([name, "var"])
        return "@" + name

    def of(self, ty, src="p0"):
        """A value of type `ty` derived from a parameter of f."""
        return self.e("cast", ty, src)

    def desc(self):
        f = {"name": "f", "ret": "i32", "params": ["i32", "i32"], "blocks": [self.body + [["ret", "p0"]]]}
        return {"name": "feat", "externals": self.externals, "globals": self.globals, "functions": self.before + [f] + self.after}


def _vol(c):
    return c == "v"


def _const_value(ty, label):
    if ty in FLOAT_TYPES:
        return FLOAT_BY_LABEL[label]
    return int(label)


GLOB_INITS = ["none", "zeros", "bytes", "parts", "ptrvar", "ptrfn", "mixed"]


def _glob_init(kind, size):
    if kind == "none":
        return None
    if kind == "zeros":
        return "00" * size
    if kind == "bytes":
        return "".join("%02x" % ((7 * i + 1) & 255) for i in range(size))
    if kind == "parts":
        h = size // 2
        return ["%02x" % 0xA5 * h, "%02x" % 0x3C * (size - h)]
    if kind == "ptrvar":
        return [["ptr", "snk"]] + (["00" * (size - 8)] if size > 8 else [])
    if kind == "ptrfn":
        return [["ptr", "f"]] + (["11" * (size - 8)] if size > 8 else [])
    if kind == "mixed":
        return ["0102030405060708", ["ptr", "snk"]] + (["ff" * (size - 16)] if size > 16 else [])
    raise ValueError(kind)


def apply_atom(mb, aid):
    """Add the atom `aid` to the module under construction."""
    a = aid.split(":")
    k = a[0]
    if k == "bin":
        op, ty = a[1], a[2]
        x, y = mb.of(ty), mb.of(ty, "p1")
        mb.sink(mb.e("bin", op, x, y, ty))
    elif k == "un":
        op, ty = a[1], a[2]
        mb.sink(mb.e("un", op, mb.of(ty), ty))
    elif k == "cast":
        src, dst = a[1], a[2]
        mb.sink(mb.e("cast", dst, mb.of(src)))
    elif k == "const":
        ty = a[1]
        mb.sink(mb.e("const", ty, _const_value(ty, a[2])))
    elif k == "alloc":
        size, align = int(a[1]), int(a[2])
        al = mb.e("alloc", size, align)
        p = mb.e("addr", al)
        c = mb.of("u8")
        mb.s("store", c, p)
        mb.sink(mb.e("load", "u8", p))
    elif k == "mem":
        ty, lv, sv = a[1], _vol(a[2][0]), _vol(a[2][1])
        gm = mb.glob("gmem", 8, 8)
        mb.s("store", mb.of(ty), gm, sv)
        mb.sink(mb.e("load", ty, gm, lv))
    elif k == "memcpy":
        n = int(a[1])
        a1 = mb.e("alloc", 16, 8)
        p1 = mb.e("addr", a1)
        a2 = mb.e("alloc", 16, 8)
        p2 = mb.e("addr", a2)
        c = mb.of("u8")
        for off in range(0, n):
            if off:
                q = mb.e("bin", "+", p1, mb.e("const", "ptr", off), "ptr")
            else:
                q = p1
            mb.s("store", c, q)
        mb.s("memcpy", p2, p1, n)
        mb.sink(mb.e("load", "u8", p2))
    elif k == "lit":
        data = {"empty": "", "one": "00", "str": "61626300", "long": "".join("%02x" % (i & 255) for i in range(300))}[a[1]]
        l = mb.e("lit", data)
        p = mb.e("addr", l)
        if data:
            mb.sink(mb.e("load", "u8", p))
        else:
            mb.sink(p)
    elif k == "undef":
        mb.e("undef", a[1])
    elif k == "asm":
        x = mb.of("i32")
        mb.s("asm", "nop %0", [x] if a[1] == "io" else [], [], ["r0"] if a[1] == "io" else [])
    elif k == "callx":      # call of an external function: callx:<ret>:<argtypes joined by ,>
        ret = a[1]
        argtys = [t for t in a[2].split(",") if t]
        x = mb.ext(mb.nm("xf"), argtys, ret)
        args = [mb.of(t) for t in argtys]
        mb.sink(mb.e("call", x, args, ret))
    elif k == "callxp":     # call of an external procedure
        argtys = [t for t in a[1].split(",") if t]
        x = mb.ext(mb.nm("xp"), argtys, None)
        mb.s("call", x, [mb.of(t) for t in argtys], None)
    elif k == "calli":      # call of a module function/procedure listed before/after f: calli:fn|proc:before|after
        name = mb.nm("h")
        if a[1] == "fn":
            fd = {"name": name, "ret": "i32", "params": ["i32"], "blocks": [[["const", "i32", 5], ["bin", "*", "p0", "%0", "i32"], ["ret", "%1"]]]}
        else:
            fd = {"name": name, "ret": None, "params": ["i32"], "blocks": [[["store", "p0", "@snk"], ["exit"]]]}
        (mb.before if a[2] == "before" else mb.after).append(fd)
        if a[1] == "fn":
            mb.sink(mb.e("call", "@" + name, ["p0"], "i32"))
        else:
            mb.s("call", "@" + name, ["p1"], None)
    elif k == "callind":    # indirect call through a pointer kept in memory
        name = mb.nm("h")
        fd = {"name": name, "ret": "i32", "params": ["i32"], "blocks": [[["const", "i32", 9], ["bin", "-", "p0", "%0", "i32"], ["ret", "%1"]]]}
        (mb.before if a[1] == "before" else mb.after).append(fd)
        gm = mb.glob("gfp", 8, 8)
        mb.s("store", "@" + name, gm)
        q = mb.e("load", "ptr", gm)
        mb.sink(mb.e("call", q, ["p1"], "i32"))
    elif k == "phi":
        kind = a[1]
        name = mb.nm("ph")
        if kind == "diamond":
            ty = a[2]
            fd = {"name": name, "ret": ty, "params": [ty, ty, "i32"], "blocks": [
                [["const", "i32", 0], ["cjmp", "p2", "!=", "%0", 1, 2]], [["jmp", 3]], [["jmp", 3]],
                [["phi", ty, [[1, "p0"], [2, "p1"]]], ["ret", "%1"]]]}
        elif kind == "loop":
            fd = {"name": name, "ret": "i32", "params": ["i32", "i32"], "blocks": [
                [["const", "i32", 0], ["const", "i32", 1], ["const", "i32", 4], ["jmp", 1]],
                [["phi", "i32", [[0, "%0"], [1, "%5"]]], ["phi", "i32", [[0, "p0"], [1, "%6"]]], ["bin", "+", "%3", "%1", "i32"],
                 ["bin", "+", "%4", "%3", "i32"], ["cjmp", "%5", "<", "%2", 1, 2]],
                [["bin", "+", "%6", "p1", "i32"], ["ret", "%7"]]]}
        elif kind == "swap":
            fd = dict(irgen.l4_programs()[0]["functions"][0], name=name)
        elif kind == "undef":
            fd = {"name": name, "ret": "i32", "params": ["i32", "i32"], "blocks": [
                [["undef", "i32"], ["cjmp", "p0", "<", "p1", 1, 2]], [["jmp", 3]], [["jmp", 3]],
                [["phi", "i32", [[1, "p0"], [2, "%0"]]], ["ret", "p1"]]]}
        elif kind == "fnptr":
            fd = {"name": name, "ret": "ptr", "params": ["i32", "i32"], "blocks": [
                [["cjmp", "p0", ">", "p1", 1, 2]], [["jmp", 3]], [["jmp", 3]],
                [["phi", "ptr", [[1, "@f"], [2, "@snk"]]], ["ret", "%0"]]]}
        else:
            raise ValueError(aid)
        mb.after.append(fd)
    elif k == "cjmp":
        cond, ty = a[1], a[2]
        mb.after.append({"name": mb.nm("cj"), "ret": "i32", "params": [ty, ty], "blocks": [
            [["cjmp", "p0", cond, "p1", 1, 2]], [["const", "i32", 1], ["ret", "%0"]], [["const", "i32", 0], ["ret", "%1"]]]})
    elif k == "sub":        # sub:fn|proc:global|local:<nparams>
        n = int(a[3])
        ptys = (TYPES * 2)[:n]
        body = [["store", "p0", "@snk"]] if n else []
        fd = {"name": mb.nm("sb"), "params": ptys, "binding": a[2]}
        if a[1] == "fn":
            fd.update(ret="u16", blocks=[body + [["const", "u16", 7], ["ret", "%0"]]])
        else:
            fd.update(ret=None, blocks=[body + [["exit"]]])
        mb.after.append(fd)
    elif k == "blobparam":
        mb.after.append({"name": mb.nm("bp"), "ret": "ptr", "params": ["blob:12:4", "i32"], "blocks": [[["addr", "p0"], ["ret", "%0"]]]})
    elif k == "extvar":
        x = mb.extvar(mb.nm("xv"))
        mb.sink(mb.e("load", "i32", x))
    elif k == "extunused":
        mb.extvar(mb.nm("uv"))
        mb.ext(mb.nm("uf"), ["f32", "ptr"], "i64")
        mb.ext(mb.nm("up"), [], None)
    elif k == "glob":       # glob:<binding>:<size>:<align>:<init kind>
        binding, size, align, kind = a[1], int(a[2]), int(a[3]), a[4]
        gname = mb.nm("gv")
        gr = mb.glob(gname, size, align, _glob_init(kind, size), binding if binding == "local" else None)
        if size >= 8:
            mb.sink(mb.e("load", "u64", gr))
            if size >= 16:
                q = mb.e("bin", "+", gr, mb.e("const", "ptr", 8), "ptr")
                mb.sink(mb.e("load", "u64", q))
        elif size >= 1:
            mb.sink(mb.e("load", "u8", gr))
    elif k == "name":
        kind = a[1]
        if kind == "underscore-global":          # what the C front end emits for string constants (__txt_const_0)
            gr = mb.glob("__txt_const_%d" % mb.k, 4, 1)
            mb.sink(mb.e("load", "u8", gr))
        elif kind == "underscore-function":      # C: int _start(void)
            name = "_start%d" % mb.k
            mb.before.append({"name": name, "ret": "i32", "params": [], "blocks": [[["const", "i32", 3], ["ret", "%0"]]]})
            mb.sink(mb.e("call", "@" + name, [], "i32"))
        elif kind == "param-equals-value":       # C: int f(int tmp, int b) {int x = b * 2; ...}  (parameter used only before)
            mb.after.append({"name": mb.nm("nm"), "ret": "i32", "params": ["i32", "i32"], "pnames": ["tmp", "b"], "vnames": {"1": "tmp"},
                             "blocks": [[["bin", "+", "p0", "p1", "i32"], ["bin", "*", "%0", "p1", "i32"], ["ret", "%1"]]]})
        elif kind == "param-equals-value-used-after":
            mb.after.append({"name": mb.nm("nm"), "ret": "i32", "params": ["i32", "i32"], "pnames": ["tmp", "b"], "vnames": {"0": "tmp"},
                             "blocks": [[["bin", "*", "p1", "p1", "i32"], ["bin", "-", "%0", "p0", "i32"], ["ret", "%1"]]]})
        elif kind == "value-equals-global":      # C: int num; int f(int a) {int x = a + 1; return num + x;}
            gr = mb.glob("num%d" % mb.k, 4, 4)
            mb.after.append({"name": mb.nm("nm"), "ret": "i32", "params": ["i32"], "vnames": {"0": gr[1:]},
                             "blocks": [[["const", "i32", 1], ["bin", "+", "p0", "%0", "i32"], ["load", "i32", gr], ["bin", "+", "%1", "%2", "i32"], ["ret", "%3"]]]})
        elif kind == "value-named-keyword":      # C3 names values 'load', 'cast', 'add'
            mb.after.append({"name": mb.nm("nm"), "ret": "i32", "params": ["i32"], "vnames": {"0": "load", "1": "cast", "2": "phi", "3": "call", "4": "alloc"},
                             "blocks": [[["load", "i32", "@snk"], ["cast", "i32", "%0"], ["bin", "+", "%1", "%0", "i32"], ["un", "-", "%2", "i32"],
                                         ["bin", "*", "%3", "%2", "i32"], ["store", "%0", "@snk"], ["cjmp", "%1", "<", "%4", 1, 1]], [["ret", "%2"]]]})
        else:
            raise ValueError(aid)
    elif k == "order":
        kind = a[1]
        name = mb.nm("od")
        if kind == "fwd":   # order:fwd:<user>:<ty>   a value defined in the block listed last is used in the block listed second
            user, ty = a[2], a[3]
            # index order (= numbering order): 0 entry -> 1 definition (%0) -> 2 user; listing order 0, 2, 1
            defs = [["bin", "+", "p0", "p0", ty] if ty in INT_TYPES else ["cast", ty, "p0"], ["jmp", 2]]
            if user == "bin":
                b2 = [["cast", ty, "p1"], ["bin", "-", "%0", "%1", ty], ["ret", "%2"]]
            elif user == "un":
                b2 = [["un", "-", "%0", ty], ["ret", "%1"]]
            elif user == "cast":
                b2 = [["cast", ty, "%0"], ["ret", "%1"]]
            elif user == "ret":
                b2 = [["ret", "%0"]]
            elif user == "store":
                b2 = [["store", "%0", "@snk"], ["ret", "p0"]]
            elif user == "cjmp":
                b2 = [["cjmp", "%0", "==", "p0", 3, 3]]
            elif user == "callarg":
                x = mb.ext(mb.nm("xo"), [ty], ty)
                b2 = [["call", x, ["%0"], ty], ["ret", "%1"]]
            else:
                raise ValueError(aid)
            blocks = [[["jmp", 1]], defs, b2]
            order = [0, 2, 1]
            if user == "cjmp":
                blocks.append([["ret", "p0"]])
                order.append(3)
            mb.after.append({"name": name, "ret": ty, "params": [ty, "i32"], "blocks": blocks, "order": order})
        else:
            raise ValueError(aid)
    elif k == "scope":
        kind = a[1]
        h = mb.nm("late")
        caller = {"name": mb.nm("sc"), "ret": "i32", "params": ["i32"], "blocks": [[["call", "@" + h, ["p0"], "i32"], ["ret", "%0"]]]}
        callee = {"name": h, "ret": "i32", "params": ["i32"], "blocks": [[["const", "i32", 2], ["bin", "+", "p0", "%0", "i32"], ["ret", "%1"]]]}
        if kind == "forward-callee-vs-param-name":     # C: int h(int); int f(int a){return h(a);} int g(int h){return h+1;} int h(int x){...}
            mid = {"name": mb.nm("md"), "ret": "i32", "params": ["i32"], "pnames": [h], "blocks": [[["const", "i32", 1], ["bin", "+", "p0", "%0", "i32"], ["ret", "%1"]]]}
        elif kind == "forward-callee-vs-value-name":
            mid = {"name": mb.nm("md"), "ret": "i32", "params": ["i32"], "vnames": {"0": h}, "blocks": [[["const", "i32", 1], ["bin", "+", "p0", "%0", "i32"], ["ret", "%1"]]]}
        else:
            raise ValueError(aid)
        # the callee must come after the caller; MB lists `after` functions in order
        mb.after += [caller, mid, callee]
    else:
        raise ValueError(aid)


def module_of(atom_ids):
    mb = MB()
    for i, aid in enumerate(atom_ids):
        mb.k = i
        apply_atom(mb, aid)
    return mb.desc()


# ----------------------------------------------------------------------------------------------- atom inventories

def singles():
    """Every atom id, simplest first inside each family."""
    out = []
    for op in ALL_BINOPS:
        for ty in INTLIKE:
            out.append("bin:%s:%s" % (op, ty))
    for op in FLOAT_BINOPS:
        for ty in FLOAT_TYPES:
            out.append("bin:%s:%s" % (op, ty))
    for op in ("-", "~"):
        for ty in INTLIKE:
            out.append("un:%s:%s" % (op, ty))
    for ty in FLOAT_TYPES:
        out.append("un:-:%s" % ty)
    for src in TYPES:
        for dst in TYPES:
            out.append("cast:%s:%s" % (src, dst))
    for ty in INT_TYPES:
        for v in irgen.V(ty, 13):
            out.append("const:%s:%d" % (ty, v))
    for v in (0, 8, 0xFFFFFFFFFFFFFFFF):
        out.append("const:ptr:%d" % v)
    for ty in FLOAT_TYPES:
        for label, _ in FLOAT_CONSTS:
            out.append("const:%s:%s" % (ty, label))
    for size, align in ((1, 1), (4, 4), (8, 8), (12, 4), (3, 1), (256, 16)):
        out.append("alloc:%d:%d" % (size, align))
    for ty in TYPES:
        for lv in "nv":
            for sv in "nv":
                out.append("mem:%s:%s%s" % (ty, lv, sv))
    for n in (1, 4, 16):
        out.append("memcpy:%d" % n)
    for kind in ("empty", "one", "str", "long"):
        out.append("lit:" + kind)
    for ty in TYPES:
        out.append("undef:" + ty)
    out += ["asm:plain", "asm:io"]
    for ty in TYPES:
        out.append("callx:%s:%s" % (ty, ty))
    out += ["callx:i32:", "callx:f64:f64,i32,ptr", "callx:u8:i8,u16,i64,f32"]
    out += ["callxp:", "callxp:i32", "callxp:u8,f32,ptr"]
    for kind in ("fn", "proc"):
        for where in ("before", "after"):
            out.append("calli:%s:%s" % (kind, where))
    out += ["callind:before", "callind:after"]
    for ty in TYPES:
        out.append("phi:diamond:" + ty)
    out += ["phi:loop", "phi:swap", "phi:undef", "phi:fnptr"]
    for cond in CONDS:
        for ty in TYPES:
            out.append("cjmp:%s:%s" % (cond, ty))
    for kind in ("fn", "proc"):
        for binding in ("global", "local"):
            for n in (0, 1, 11):
                out.append("sub:%s:%s:%d" % (kind, binding, n))
    out += ["blobparam", "extvar", "extunused"]
    for binding in ("global", "local"):
        for size, align in ((0, 1), (1, 1), (4, 4), (8, 8), (16, 8), (64, 16)):
            for kind in GLOB_INITS:
                if size == 0 and kind != "none":
                    continue
                if kind in ("ptrvar", "ptrfn") and size < 8:
                    continue
                if kind == "mixed" and size < 16:
                    continue
                if kind == "parts" and size < 2:
                    continue
                out.append("glob:%s:%d:%d:%s" % (binding, size, align, kind))
    out += ["name:underscore-global", "name:underscore-function", "name:param-equals-value", "name:param-equals-value-used-after",
            "name:value-equals-global", "name:value-named-keyword"]
    for user in ("bin", "un", "cast", "ret", "store", "cjmp", "callarg"):
        for ty in ("i32", "i64", "u8", "f64", "ptr"):
            if user == "un" and ty == "ptr":
                continue
            out.append("order:fwd:%s:%s" % (user, ty))
    out += ["scope:forward-callee-vs-param-name", "scope:forward-callee-vs-value-name"]
    return out


def alphabet(level=1):
    """Representative atoms: level 1 (pair alphabet, 122 atoms) is a superset of level 0 (core, 58 atoms)."""
    core = []
    # every binary operator once, the type rotates so that every type occurs
    for i, op in enumerate(ALL_BINOPS):
        core.append("bin:%s:%s" % (op, INTLIKE[i % len(INTLIKE)]))
    core += ["bin:/:f32", "bin:*:f64", "un:-:i32", "un:~:u8", "un:-:f64"]
    core += ["cast:i8:u64", "cast:f32:f64", "cast:f64:i16", "cast:ptr:u32"]
    core += ["const:i8:-128", "const:u64:18446744073709551615", "const:i64:-9223372036854775808", "const:f64:-1.5", "const:f64:-0.0",
             "const:f64:1e300", "const:f32:1e-40", "const:f64:inf", "const:f64:-inf", "const:f64:nan", "const:f64:int3"]
    core += ["alloc:12:4", "mem:i32:nn", "mem:u8:vn", "mem:f64:nv", "memcpy:4", "lit:str", "undef:i32", "asm:io"]
    core += ["callx:f64:f64,i32,ptr", "callxp:i32", "calli:fn:after", "calli:proc:before", "callind:after"]
    core += ["phi:diamond:i32", "phi:loop", "phi:undef", "cjmp:<=:u16", "sub:proc:local:1", "extvar"]
    core += ["glob:global:4:4:bytes", "glob:local:16:8:mixed", "glob:global:8:8:ptrfn"]
    core += ["name:underscore-global", "name:value-equals-global", "order:fwd:bin:i64", "scope:forward-callee-vs-param-name"]
    if level == 0:
        return core
    more = ["un:~:i64", "un:-:ptr", "cast:i64:ptr", "cast:u16:f32", "const:u8:255", "const:i16:-1", "const:u16:65535", "const:i32:-2147483648",
            "const:u32:4294967295", "const:i32:0", "const:ptr:8", "const:f64:1.0", "const:f64:0.1", "const:f64:2p63", "const:f64:-2.5e-300",
            "const:f64:5e-324", "const:f32:f32max", "const:f32:inf", "const:f32:int-7", "const:f64:1e15", "const:f64:1e16",
            "mem:ptr:vv", "mem:f32:nn", "memcpy:16", "lit:empty", "lit:long", "undef:f64", "undef:ptr", "asm:plain",
            "callx:i32:", "callx:ptr:ptr", "callxp:", "callxp:u8,f32,ptr", "calli:fn:before", "calli:proc:after", "callind:before",
            "phi:diamond:f64", "phi:diamond:ptr", "phi:diamond:u8", "phi:swap", "phi:fnptr",
            "cjmp:==:i8", "cjmp:!=:f32", "cjmp:<:i64", "cjmp:>:ptr", "cjmp:>=:u32",
            "sub:fn:global:0", "sub:fn:local:11", "sub:proc:global:0", "blobparam", "extunused",
            "glob:global:4:4:none", "glob:local:4:4:none", "glob:global:8:8:zeros", "glob:global:16:8:ptrvar", "glob:global:8:8:parts", "glob:global:0:1:none",
            "name:underscore-function", "name:param-equals-value", "name:value-named-keyword",
            "order:fwd:store:f64", "order:fwd:cjmp:ptr", "order:fwd:callarg:u8", "scope:forward-callee-vs-value-name"]
    return core + more


def pairs(atoms, ordered=False):
    if ordered:
        return [[a, b] for a in atoms for b in atoms if a != b]
    return [list(c) for c in itertools.combinations(atoms, 2)]


def triples(atoms):
    return [list(c) for c in itertools.combinations(atoms, 3)]
