"""Abstract, explicitly typed programs rendered twice: as C3 and as C (DESIGN C37).

One program = a dict {"types": [(struct name, [(field, T)...])], "globals": [(name, T, init | None)], "funcs": [function...]}
with function = {"name", "ret": T, "params": [(name, T)], "body": [stmt...]}.  File-scope names carry the placeholder '@'
(per-case suffix).  The entry point is always `f@`.

Types T:  "int" "byte" "bool" "int8_t" ... "uint64_t" "float" "double" | ("ptr", T) | ("arr", T, n) | ("struct", name)

Expressions (the type is always the last element; operands of an operator have exactly the operator's type):
  ("p", name, T)              variable / parameter / global (an lvalue)
  ("k", value, T)             constant of type T
  ("bin", op, l, r, T)        + - * / % << >> & | ^      in type T
  ("neg", e, T)
  ("cast", e, T)              explicit conversion: C3 cast<T>(e), C ((CT)e)
  ("imp", e, T)               conversion C3 performs implicitly: C3 renders e alone, C renders ((CT)e)
  ("cmp", op, l, r, "bool")   ("and", l, r, "bool")  ("or", l, r, "bool")  ("not", e, "bool")
  ("call", fname, [args], T)
  ("idx", base, i, T)  ("fld", base, field, T)  ("arrow", ptr, field, T)  ("deref", ptr, T)  ("addr", lvalue, ("ptr", T))
Statements:
  ("var", name, T, init | None)   ("set", lvalue, e)   ("aug", op, lvalue, e)   ("if", c, then, else)   ("while", c, body)
  ("for", init stmt, c, final stmt, body)   ("switch", e, [(k, body)...], default body)   ("ret", e | None)   ("do", call expr)

What the C rendering adds so that it means what the C3 text means without leaning on C's integer promotions:
  * arithmetic in a type narrower than int is computed by C in int; the result is converted back to the narrow type: unsigned ->
    modulo (fixed-width wrap-around); signed -> the call is *discarded* when the result does not fit (like signed overflow in int,
    which UBSan discards), through chk helpers that execute a trap (the driver discards a call that raises a signal);
  * shift counts >= the width of the narrow type are discarded the same way (C would see a 32-bit shift);
  * C3's switch has no fall-through (test/samples/simple/switch_statement.c3/.out): every case ends in `break`;
  * bool is an int holding 0/1.

Families (all deterministic lists, simplest first): E1 depth-1 operators per type; CAST / CASTCHAIN conversions; W mixed operand types;
LIT literal operands; ASSOC unparenthesised chains; E2 / E2F / E2M / E3 depth-2 expressions; COND short-circuit conditions; S statement
skeletons; A aggregates; X further statement forms; CONST constant expressions evaluated by the front end; MOD two modules.
`c_driver` renders the translation unit (cases + table-driven driver) that gcc compiles; `parse_driver_output` reads its output.
"""
import itertools

INTS = {"int": (32, True), "byte": (8, False), "int8_t": (8, True), "int16_t": (16, True), "int32_t": (32, True), "int64_t": (64, True),
        "uint8_t": (8, False), "uint16_t": (16, False), "uint32_t": (32, False), "uint64_t": (64, False)}
INT_NAMES = ["int", "byte", "int8_t", "int16_t", "int32_t", "int64_t", "uint8_t", "uint16_t", "uint32_t", "uint64_t"]
SIX = ["int", "byte", "int8_t", "uint16_t", "int64_t", "uint64_t"]
FLOATS = {"float": (32, 23), "double": (64, 52)}
CNAME = {"int": "int", "byte": "unsigned char", "int8_t": "signed char", "int16_t": "short", "int32_t": "int", "int64_t": "long",
         "uint8_t": "unsigned char", "uint16_t": "unsigned short", "uint32_t": "unsigned", "uint64_t": "unsigned long", "bool": "int",
         "float": "float", "double": "double", "void": "void"}
BINOPS = ["+", "-", "*", "/", "%", "<<", ">>", "&", "|", "^"]
CMPS = ["==", "!=", "<", ">", "<=", ">="]
AUGOPS = ["+", "-", "*", "|", "&"]


def is_int(t):
    return t in INTS


def is_float(t):
    return t in FLOATS


def bits(t):
    return INTS[t][0] if t in INTS else FLOATS[t][0]


def signed(t):
    return INTS[t][1]


def trange(t):
    b, s = INTS[t]
    return (-(1 << (b - 1)), (1 << (b - 1)) - 1) if s else (0, (1 << b) - 1)


def cls(t):
    """width/signedness class used in locus keys (int == int32_t, byte == uint8_t)."""
    if t in INTS:
        return ("s" if signed(t) else "u") + str(bits(t))
    if isinstance(t, tuple):
        return t[0]
    return t


def ty(e):
    return e[-1]


# ------------------------------------------------------------------ C3's documented coercion rules (model used to *generate*)

def implicit_ok(f, t):
    """May C3 convert f to t without a cast?  (typechecker.do_coerce, read as documentation of the language)"""
    if f == t:
        return True
    if is_int(f) and is_int(t):
        if signed(f) == signed(t):
            return bits(f) <= bits(t)
        if not signed(f):
            return bits(f) < bits(t) - 1
        return True  # signed -> unsigned: accepted by the language (test/samples/simple/overflow.c3 relies on int -> byte)
    if is_int(f) and is_float(t):
        return signed(f) or bits(f) < FLOATS[t][1]
    if is_float(f) and is_float(t):
        return True
    return False


def common_type(a, b):
    """context.get_common_type docstring: byte+byte -> byte, byte+int -> int, int+float -> float: the 'largest' class
    (unsigned < signed < float) at the larger width."""
    if a == b:
        return a
    if is_int(a) and is_int(b) and INTS[a] == INTS[b]:
        return a
    prio = lambda t: 3 if is_float(t) else (2 if signed(t) else 1)  # noqa
    c = max(prio(a), prio(b))
    w = max(bits(a), bits(b))
    if c == 3:
        return {32: "float", 64: "double"}.get(w)
    return {(2, 8): "int8_t", (2, 16): "int16_t", (2, 32): "int32_t", (2, 64): "int64_t",
            (1, 8): "uint8_t", (1, 16): "uint16_t", (1, 32): "uint32_t", (1, 64): "uint64_t"}[(c, w)]


def same_type(a, b):
    return a == b or (is_int(a) and is_int(b) and INTS[a] == INTS[b])


# ------------------------------------------------------------------ constructors

def P(name, t):
    return ("p", name, t)


def K(v, t):
    return ("k", v, t)


def B(op, l, r):
    assert same_type(ty(l), ty(r)), (l, r)
    return ("bin", op, l, r, ty(l))


def CMP(op, l, r):
    assert same_type(ty(l), ty(r)), (l, r)
    return ("cmp", op, l, r, "bool")


def CAST(e, t):
    return ("cast", e, t)


def IMP(e, t):
    if ty(e) == t:
        return e
    assert implicit_ok(ty(e), t), (ty(e), t)
    return ("imp", e, t)


def mixed_bin(op, l, r):
    """a op b as C3 types it: both operands implicitly converted to the common type (None when C3 rejects the pair)."""
    ct = common_type(ty(l), ty(r))
    if ct is None or not implicit_ok(ty(l), ct) or not implicit_ok(ty(r), ct):
        return None
    # the documented direction only: an operand is never silently narrowed or re-signed inside an expression
    for x in (l, r):
        if is_int(ty(x)) and is_int(ct) and signed(ty(x)) and not signed(ct):
            return None
    if op in CMPS:
        return ("cmp", op, IMP(l, ct), IMP(r, ct), "bool")
    return ("bin", op, IMP(l, ct), IMP(r, ct), ct)


# ------------------------------------------------------------------ rendering: types

def c3_type(t):
    if isinstance(t, str):
        return t
    if t[0] == "ptr":
        return c3_type(t[1]) + "*"
    if t[0] == "arr":
        return "%s[%d]" % (c3_type(t[1]), t[2])
    if t[0] == "struct":
        return t[1]
    raise ValueError(t)


def c_decl(t, name):
    if isinstance(t, str):
        return "%s %s" % (CNAME[t], name)
    if t[0] == "ptr":
        return c_decl(t[1], "*" + name)
    if t[0] == "arr":
        return c_decl(t[1], "%s[%d]" % (name, t[2]))
    if t[0] == "struct":
        return "%s %s" % (t[1], name)
    raise ValueError(t)


def c_type(t):
    return c_decl(t, "").strip()


# ------------------------------------------------------------------ rendering: expressions

def c3_const(v, t):
    if t == "bool":
        return "true" if v else "false"
    if is_float(t):
        s = "%r" % abs(float(v))
        if "e" in s or "." not in s:
            raise ValueError("float literal %r" % v)
        s = s if v >= 0 else "(-%s)" % s
        return s if t == "double" else "cast<float>(%s)" % s
    if isinstance(t, tuple) and t[0] == "ptr":
        return "cast<%s>(%d)" % (c3_type(t), v)
    assert -(1 << 31) <= v < (1 << 31), "C3 literals are ints"
    if v == -(1 << 31):
        s = "((-2147483647) - 1)"
    else:
        s = str(v) if v >= 0 else "(-%d)" % -v
    if same_type(t, "int"):
        return s
    return "cast<%s>(%s)" % (t, s)


def c3_expr(e):
    k = e[0]
    if k == "p":
        return e[1]
    if k == "k":
        return c3_const(e[1], e[2])
    if k in ("bin", "cmp"):
        return "(%s %s %s)" % (c3_expr(e[2]), e[1], c3_expr(e[3]))
    if k in ("and", "or"):
        return "(%s %s %s)" % (c3_expr(e[1]), k, c3_expr(e[2]))
    if k == "not":
        return "(not %s)" % c3_expr(e[1])
    if k == "neg":
        return "(-%s)" % c3_expr(e[1])
    if k == "cast":
        return "cast<%s>(%s)" % (c3_type(e[2]), c3_expr(e[1]))
    if k == "imp":
        return c3_expr(e[1])
    if k == "call":
        return "%s(%s)" % (e[1], ", ".join(c3_expr(a) for a in e[2]))
    if k == "idx":
        return "%s[%s]" % (c3_expr(e[1]), c3_expr(e[2]))
    if k == "fld":
        return "%s.%s" % (c3_expr(e[1]), e[2])
    if k == "arrow":
        return "%s->%s" % (c3_expr(e[1]), e[2])
    if k == "deref":
        return "(*%s)" % c3_expr(e[1])
    if k == "addr":
        return "(&%s)" % c3_expr(e[1])
    raise ValueError(e)


def narrow(t):
    return is_int(t) and bits(t) < 32


def c_const(v, t):
    if t == "bool":
        return "1" if v else "0"
    if is_float(t):
        return "((%s)%r)" % (CNAME[t], float(v))
    if isinstance(t, tuple):
        return "((%s)%d)" % (c_type(t), v)
    if v < 0:
        return "((%s)(-%dLL-1))" % (CNAME[t], -v - 1)
    return "((%s)%dULL)" % (CNAME[t], v)


def c_fit(t, s):
    """Bring an int-typed C value computed for narrow type t back into t."""
    if signed(t):
        return "chk%d@(%s)" % (bits(t), s)
    return "((%s)(%s))" % (CNAME[t], s)


def c_expr(e):
    k = e[0]
    if k == "p":
        return e[1]
    if k == "k":
        return c_const(e[1], e[2])
    if k == "bin":
        op, l, r, t = e[1], c_expr(e[2]), c_expr(e[3]), e[4]
        if is_float(t):
            return "((%s)(%s %s %s))" % (CNAME[t], l, op, r)
        if narrow(t):
            if op in ("<<", ">>"):
                r = "shc@((unsigned long)(long)%s, %d)" % (r, bits(t))
            if op == "%" and signed(t):
                # the quotient must exist in the narrow type (as INT_MIN % -1 is undefined in int)
                return c_fit(t, "rem@(%s, %s, %d, %d)" % (l, r, trange(t)[0], trange(t)[1]))
            if not signed(t):
                # modular arithmetic: computed in unsigned so that C's promotion to (signed) int cannot overflow (65535 * 65535)
                l = "(unsigned)" + l
                if op not in ("<<", ">>"):
                    r = "(unsigned)" + r
            return c_fit(t, "%s %s %s" % (l, op, r))
        return "(%s %s %s)" % (l, op, r)
    if k == "neg":
        t = e[2]
        if narrow(t):
            return c_fit(t, "-%s%s" % ("" if signed(t) else "(unsigned)", c_expr(e[1])))
        return "(-%s)" % c_expr(e[1])
    if k == "cmp":
        return "(%s %s %s)" % (c_expr(e[2]), e[1], c_expr(e[3]))
    if k == "and":
        return "(%s && %s)" % (c_expr(e[1]), c_expr(e[2]))
    if k == "or":
        return "(%s || %s)" % (c_expr(e[1]), c_expr(e[2]))
    if k == "not":
        return "(!%s)" % c_expr(e[1])
    if k in ("cast", "imp"):
        return "((%s)%s)" % (c_type(e[2]), c_expr(e[1]))
    if k == "call":
        return "%s(%s)" % (e[1], ", ".join(c_expr(a) for a in e[2]))
    if k == "idx":
        return "%s[%s]" % (c_expr(e[1]), c_expr(e[2]))
    if k == "fld":
        return "%s.%s" % (c_expr(e[1]), e[2])
    if k == "arrow":
        return "%s->%s" % (c_expr(e[1]), e[2])
    if k == "deref":
        return "(*%s)" % c_expr(e[1])
    if k == "addr":
        return "(&%s)" % c_expr(e[1])
    raise ValueError(e)


C_HELPERS = ("static int vfU@(void){ __builtin_trap(); return 0; }\n"
             "static signed char chk8@(int v){ if (v < -128 || v > 127) vfU@(); return (signed char)v; }\n"
             "static short chk16@(int v){ if (v < -32768 || v > 32767) vfU@(); return (short)v; }\n"
             "static int shc@(unsigned long n, int w){ if (n >= (unsigned long)w) vfU@(); return (int)(n & 31); }\n"
             "static int rem@(int a, int b, int lo, int hi){ int q = a / b; if (q < lo || q > hi) vfU@(); return a % b; }\n")


# ------------------------------------------------------------------ rendering: statements

def c3_init(t, init):
    if isinstance(init, list):
        return "{%s}" % ", ".join(c3_init(t[1] if t[0] == "arr" else None, x) for x in init)
    if isinstance(init, dict):
        return "{%s}" % ", ".join(".%s=%s" % (f, c3_init(None, x)) for f, x in init.items())
    return c3_expr(init)


def c_init(init):
    if isinstance(init, list):
        return "{%s}" % ", ".join(c_init(x) for x in init)
    if isinstance(init, dict):
        return "{%s}" % ", ".join(".%s=%s" % (f, c_init(x)) for f, x in init.items())
    return c_expr(init)


def c3_simple(s):
    """A statement without its terminating ';' (for-loop headers use these too)."""
    k = s[0]
    if k == "set":
        return "%s = %s" % (c3_expr(s[1]), c3_expr(s[2]))
    if k == "aug":
        return "%s %s= %s" % (c3_expr(s[2]), s[1], c3_expr(s[3]))
    if k == "do":
        return c3_expr(s[1])
    raise ValueError(s)


def c_simple(s):
    k = s[0]
    if k == "set":
        return "%s = %s" % (c_expr(s[1]), c_expr(s[2]))
    if k == "aug":
        lv = s[2]
        if not narrow(ty(lv)):
            # operands already have the (>= int wide) type of the lvalue: C's own compound assignment, lvalue evaluated once
            return "%s %s= %s" % (c_expr(lv), s[1], c_expr(s[3]))
        return "%s = %s" % (c_expr(lv), c_expr(("bin", s[1], lv, s[3], ty(lv))))
    if k == "do":
        return c_expr(s[1])
    raise ValueError(s)


def c3_block(body, ind):
    pad = "  " * ind
    out = []
    for s in body:
        k = s[0]
        if k == "var":
            out.append("%svar %s %s%s;" % (pad, c3_type(s[2]), s[1], "" if s[3] is None else " = " + c3_init(s[2], s[3])))
        elif k in ("set", "aug", "do"):
            out.append(pad + c3_simple(s) + ";")
        elif k == "if":
            out.append("%sif (%s) {" % (pad, c3_expr(s[1])))
            out += c3_block(s[2], ind + 1)
            if s[3]:
                out.append(pad + "} else {")
                out += c3_block(s[3], ind + 1)
            out.append(pad + "}")
        elif k == "while":
            out.append("%swhile (%s) {" % (pad, c3_expr(s[1])))
            out += c3_block(s[2], ind + 1)
            out.append(pad + "}")
        elif k == "for":
            out.append("%sfor (%s; %s; %s) {" % (pad, c3_simple(s[1]), c3_expr(s[2]), c3_simple(s[3])))
            out += c3_block(s[4], ind + 1)
            out.append(pad + "}")
        elif k == "switch":
            out.append("%sswitch (%s) {" % (pad, c3_expr(s[1])))
            for kv, b in s[2]:
                out.append("%s  case %d: {" % (pad, kv))
                out += c3_block(b, ind + 2)
                out.append(pad + "  }")
            out.append(pad + "  default: {")
            out += c3_block(s[3], ind + 2)
            out.append(pad + "  }")
            out.append(pad + "}")
        elif k == "ret":
            out.append(pad + ("return;" if s[1] is None else "return %s;" % c3_expr(s[1])))
        else:
            raise ValueError(s)
    return out


def c_block(body, ind):
    pad = "  " * ind
    out = []
    for s in body:
        k = s[0]
        if k == "var":
            out.append("%s%s%s;" % (pad, c_decl(s[2], s[1]), "" if s[3] is None else " = " + c_init(s[3])))
        elif k in ("set", "aug", "do"):
            out.append(pad + c_simple(s) + ";")
        elif k == "if":
            out.append("%sif (%s) {" % (pad, c_expr(s[1])))
            out += c_block(s[2], ind + 1)
            if s[3]:
                out.append(pad + "} else {")
                out += c_block(s[3], ind + 1)
            out.append(pad + "}")
        elif k == "while":
            out.append("%swhile (%s) {" % (pad, c_expr(s[1])))
            out += c_block(s[2], ind + 1)
            out.append(pad + "}")
        elif k == "for":
            out.append("%sfor (%s; %s; %s) {" % (pad, c_simple(s[1]), c_expr(s[2]), c_simple(s[3])))
            out += c_block(s[4], ind + 1)
            out.append(pad + "}")
        elif k == "switch":
            out.append("%sswitch (%s) {" % (pad, c_expr(s[1])))
            for kv, b in s[2]:
                out.append("%s  case %d: {" % (pad, kv))
                out += c_block(b, ind + 2)
                out.append(pad + "  } break;")
            out.append(pad + "  default: {")
            out += c_block(s[3], ind + 2)
            out.append(pad + "  } break;")
            out.append(pad + "}")
        elif k == "ret":
            out.append(pad + ("return;" if s[1] is None else "return %s;" % c_expr(s[1])))
        else:
            raise ValueError(s)
    return out


def hoist_vars(body):
    """C3 has one scope per function; C is block scoped.  The generators declare variables at function level only, checked here."""
    for s in body:
        if s[0] in ("if",):
            for b in (s[2], s[3]):
                assert not any(x[0] == "var" for x in b)
                hoist_vars(b)
        elif s[0] == "while":
            assert not any(x[0] == "var" for x in s[2])
        elif s[0] == "for":
            assert not any(x[0] == "var" for x in s[4])


def render_c3(prog):
    out = []
    for name, fields in prog.get("types", []):
        out.append("type struct { %s } %s;" % (" ".join("%s %s;" % (c3_type(t), f) for f, t in fields), name))
    for name, t, init in prog.get("globals", []):
        out.append("var %s %s%s;" % (c3_type(t), name, "" if init is None else " = " + c3_init(t, init)))
    for f in prog["funcs"]:
        hoist_vars(f["body"])
        out.append("function %s %s(%s) {" % (c3_type(f["ret"]), f["name"], ", ".join("%s %s" % (c3_type(t), n) for n, t in f["params"])))
        out += c3_block(f["body"], 1)
        out.append("}")
    return "\n".join(out) + "\n"


def render_c(prog):
    out = [C_HELPERS]
    for name, fields in prog.get("types", []):
        out.append("typedef struct { %s } %s;" % (" ".join("%s;" % c_decl(t, f) for f, t in fields), name))
    for name, t, init in prog.get("globals", []):
        out.append("%s%s;" % (c_decl(t, name), "" if init is None else " = " + c_init(init)))
    for f in prog["funcs"]:
        out.append("%s;" % c_decl(f["ret"], "%s(%s)" % (f["name"], ", ".join(c_decl(t, n) for n, t in f["params"]) or "void")))
    for f in prog["funcs"]:
        out.append("%s {" % c_decl(f["ret"], "%s(%s)" % (f["name"], ", ".join(c_decl(t, n) for n, t in f["params"]) or "void")))
        out += c_block(f["body"], 1)
        out.append("}")
    return "\n".join(out) + "\n"


# ------------------------------------------------------------------ argument vectors

def V(t, k=7):
    if t == "bool":
        return [0, 1]
    if is_float(t):
        return [0.0, 1.0, -1.0, 0.5, -2.5, 3.0, 100.0][:k]
    lo, hi = trange(t)
    if signed(t):
        vs = [0, 1, -1, hi, 2, lo, -7, 3, 100]
    else:
        vs = [0, 1, 2, hi, 7, hi - 1, 3, 100, hi >> 1]
    out = []
    for v in vs:
        if v not in out and lo <= v <= hi:
            out.append(v)
    return out[:k]


SMALL = [-7, -2, -1, 0, 1, 2, 3, 7]


def vectors(params, k=7, cap=64):
    cols = [V(t, k) for t in params]
    vs = [list(v) for v in itertools.product(*cols)]
    vs.sort(key=lambda v: (sum(abs(x) for x in v), v))
    return vs[:cap] if len(vs) <= cap else [vs[int(i * len(vs) / cap)] for i in range(cap)]


def small_vectors(params):
    cols = []
    for t in params:
        lo, hi = trange(t) if is_int(t) else (0, 1)
        cols.append([v for v in SMALL if lo <= v <= hi] if is_int(t) else [0, 1])
    vs = [list(v) for v in itertools.product(*cols)]
    vs.sort(key=lambda v: (sum(abs(x) for x in v), v))
    return vs


def case(fam, feat, prog, vecs=None, k=7, cap=64):
    f = [x for x in prog["funcs"] if x["name"] == "f@"][0]
    ptypes = [t for _, t in f["params"]]
    scalars = [n for n, t, _ in prog.get("globals", []) if isinstance(t, str) or (t[0] == "arr" and isinstance(t[1], str))]
    return {"fam": fam, "feat": feat, "c3": render_c3(prog), "src": render_c(prog), "fname": "f@", "ret": CNAME[f["ret"]],
            "params": [CNAME[t] for t in ptypes], "c3params": ptypes, "c3ret": f["ret"],
            "vectors": vecs if vecs is not None else vectors(ptypes, k, cap), "globals": [n for n, _, _ in prog.get("globals", [])],
            "cmp_globals": scalars}


# ------------------------------------------------------------------ the C driver (one translation unit for a batch of cases)

DRIVER_PRELUDE = r"""
#include <stdio.h>
#include <string.h>
#include <signal.h>
#include <setjmp.h>
static sigjmp_buf vf_jb;
static void vf_sig(int s){ (void)s; siglongjmp(vf_jb, 1); }
static void vf_hex(const void *p, unsigned n){ const unsigned char *c = p; for (unsigned i = 0; i < n; i++) printf("%02x", c[i]); }
"""

GCC_FLAGS = ["-O0", "-w", "-std=gnu11", "-fsanitize=undefined,float-cast-overflow,float-divide-by-zero", "-fsanitize-undefined-trap-on-error",
             "-ffp-contract=off"]


def c_literal(ct, v):
    if ct in ("float", "double"):
        return "((%s)%r)" % (ct, float(v))
    if v < 0:
        return "((%s)(-%dLL-1))" % (ct, -v - 1)
    return "((%s)%dULL)" % (ct, v)


def c_driver(cases, idxs):
    """Table driven: per case one argument table and one loop with a single sigsetjmp.  Every undefined operation executes a trap
    (-fsanitize-undefined-trap-on-error: UBSan's reporting runtime would mention each source location only once per process) and is
    printed as an X line.  Lines:  R <case> <vector> <value> [<global>=<hex>...]   |   X <case> <vector>."""
    parts = [DRIVER_PRELUDE]
    main = ["int main(void){", "  signal(SIGFPE, vf_sig); signal(SIGILL, vf_sig); signal(SIGSEGV, vf_sig); signal(SIGBUS, vf_sig); signal(SIGTRAP, vf_sig);"]
    for k in idxs:
        c = cases[k]
        suf = "_%d" % k
        parts.append(c["src"].replace("@", suf))
        np_ = len(c["params"])
        flds = " ".join("%s p%d;" % (t, i) for i, t in enumerate(c["params"]))
        rows = ", ".join("{%s}" % ", ".join(c_literal(t, v) for t, v in zip(c["params"], vec)) for vec in c["vectors"])
        parts.append("static const struct { %s } vf_args%s[] = { %s };" % (flds, suf, rows))
        gl = [g.replace("@", suf) for g in c["globals"]]
        save = "".join(" static unsigned char sh_%s[sizeof(%s)]; memcpy(sh_%s, &%s, sizeof(%s));" % (g, g, g, g, g) for g in gl)
        restore = "".join(" memcpy(&%s, sh_%s, sizeof(%s));" % (g, g, g) for g in gl)
        dump = "".join(' printf(" %s="); vf_hex(&%s, sizeof(%s));' % (g, g, g) for g in gl)
        args = ", ".join("vf_args%s[vi].p%d" % (suf, i) for i in range(np_))
        ret = c["ret"]
        fname = c["fname"].replace("@", suf)
        if ret in ("float", "double"):
            call = "double r = (double)%s(%s); unsigned long long b; memcpy(&b, &r, 8); printf(\"R %d %%d F%%llx\", vi, b);" % (fname, args, k)
        elif ret.startswith("unsigned"):
            call = "unsigned long long r = (unsigned long long)%s(%s); printf(\"R %d %%d %%llu\", vi, r);" % (fname, args, k)
        else:
            call = "long long r = (long long)%s(%s); printf(\"R %d %%d %%lld\", vi, r);" % (fname, args, k)
        parts.append("static void vf_run%s(void){%s\n  for (volatile int vi = 0; vi < %d; vi++) {%s\n    if (!sigsetjmp(vf_jb, 1)) { %s%s printf(\"\\n\"); }"
                     " else printf(\"X %d %%d\\n\", vi);\n  }\n}" % (suf, save, len(c["vectors"]), restore, call, dump, k))
        main.append("  vf_run%s();" % suf)
    main.append("  fflush(stdout); return 0; }")
    return "\n".join(parts) + "\n" + "\n".join(main) + "\n"


def parse_driver_output(text):
    """-> {case: {vector: ('ok', value, {global: hex}) | ('ub', 'signal')}}"""
    import struct
    res = {}
    for line in text.splitlines():
        t = line.split()
        if len(t) < 3 or t[0] not in ("R", "X"):
            continue
        k, vi = int(t[1]), int(t[2])
        if t[0] == "X":
            res.setdefault(k, {})[vi] = ("ub", "signal")
            continue
        val = t[3]
        if val.startswith("F"):
            ret = struct.unpack("<d", struct.pack("<Q", int(val[1:], 16)))[0]
        else:
            ret = int(val)
        mem = {}
        for x in t[4:]:
            name, _, hx = x.partition("=")
            mem[name] = hx
        res.setdefault(k, {})[vi] = ("ok", ret, mem)
    return res


def fn(ret, params, body, name="f@"):
    return {"name": name, "ret": ret, "params": params, "body": body}


def simple(ret, params, body):
    return {"funcs": [fn(ret, params, body)]}


# ------------------------------------------------------------------ families

def fam_E1(types=INT_NAMES):
    """depth 1: every operator of the language in every integer type; comparisons; unary minus; shorthand assignment."""
    for t in types:
        a, b = P("a", t), P("b", t)
        for op in BINOPS:
            yield case("E1", "bin/%s/%s" % (op, t), simple(t, [("a", t), ("b", t)], [("ret", B(op, a, b))]))
        for op in CMPS:
            yield case("E1", "cmp/%s/%s" % (op, t), simple("bool", [("a", t), ("b", t)], [("ret", CMP(op, a, b))]))
        yield case("E1", "neg/-/%s" % t, simple(t, [("a", t)], [("ret", ("neg", a, t))]), k=9)
        for op in AUGOPS:
            x = P("x", t)
            yield case("E1", "aug/%s=/%s" % (op, t), simple(t, [("a", t), ("b", t)], [("var", "x", t, a), ("aug", op, x, b), ("ret", x)]))
            yield case("E1", "aug-param/%s=/%s" % (op, t), simple(t, [("a", t), ("b", t)], [("aug", op, a, b), ("ret", a)]))
    for t in ("double", "float"):
        a, b = P("a", t), P("b", t)
        for op in ("+", "-", "*", "/"):
            yield case("E1", "bin/%s/%s" % (op, t), simple(t, [("a", t), ("b", t)], [("ret", B(op, a, b))]))
        for op in CMPS:
            yield case("E1", "cmp/%s/%s" % (op, t), simple("bool", [("a", t), ("b", t)], [("ret", CMP(op, a, b))]))
        yield case("E1", "neg/-/%s" % t, simple(t, [("a", t)], [("ret", ("neg", a, t))]))
    a, b = P("a", "bool"), P("b", "bool")
    yield case("E1", "logic/and/bool", simple("bool", [("a", "bool"), ("b", "bool")], [("ret", ("and", a, b, "bool"))]))
    yield case("E1", "logic/or/bool", simple("bool", [("a", "bool"), ("b", "bool")], [("ret", ("or", a, b, "bool"))]))
    yield case("E1", "logic/not/bool", simple("bool", [("a", "bool")], [("ret", ("not", a, "bool"))]))
    # constants of every type (C3 literals are ints; other types by cast)
    for t in types:
        lo, hi = trange(t)
        for v in sorted({0, 1, 5, max(lo, -(1 << 31)), min(hi, (1 << 31) - 1), max(lo, -3)}):
            a = P("a", t)
            yield case("E1", "const/%s" % t, simple(t, [("a", t)], [("ret", B("+", a, K(v, t)))]), k=5)


def fam_CAST(types=INT_NAMES + ["float", "double"]):
    """every explicit cast pair, and every conversion C3 performs implicitly at return / assignment / argument position."""
    for t1 in types:
        for t2 in types:
            a = P("a", t1)
            yield case("CAST", "cast/%s->%s" % (t1, t2), simple(t2, [("a", t1)], [("ret", CAST(a, t2))]), k=9)
            if t1 != t2 and implicit_ok(t1, t2):
                yield case("CAST", "implicit-return/%s->%s" % (t1, t2), simple(t2, [("a", t1)], [("ret", IMP(a, t2))]), k=9)
                yield case("CAST", "implicit-assign/%s->%s" % (t1, t2),
                           simple(t2, [("a", t1)], [("var", "x", t2, K(0, t2)), ("set", P("x", t2), IMP(a, t2)), ("ret", P("x", t2))]), k=9)
                idf = fn(t2, [("v", t2)], [("ret", P("v", t2))], name="id@")
                yield case("CAST", "implicit-argument/%s->%s" % (t1, t2),
                           {"funcs": [idf, fn(t2, [("a", t1)], [("ret", ("call", "id@", [IMP(a, t2)], t2))])]}, k=9)


def fam_W(types=INT_NAMES, ops=("+", "-", "*", "/", "%", "&", "|", "^", ">>", "<", "==", ">=")):
    """mixed operand types: the coercion table (byte+byte -> byte, byte+int -> int, uint8+int16 -> int16, ...)."""
    for t1 in types:
        for t2 in types:
            if same_type(t1, t2):
                continue
            a, b = P("a", t1), P("b", t2)
            for op in ops:
                e = mixed_bin(op, a, b)
                if e is None:
                    continue
                yield case("W", "mixed/%s/%s/%s" % (op, t1, t2), simple(ty(e), [("a", t1), ("b", t2)], [("ret", e)]))
    for t in ("float", "double"):
        for ti in ("int", "byte", "int8_t", "int64_t", "uint16_t"):
            a, b = P("a", ti), P("b", t)
            for op in ("+", "*", "<"):
                e = mixed_bin(op, a, b)
                if e is not None:
                    yield case("W", "mixed/%s/%s/%s" % (op, ti, t), simple(ty(e), [("a", ti), ("b", t)], [("ret", e)]))
    # the width of the intermediate result must be the common type's: (byte + byte) / byte, widened only afterwards
    for t, wide in (("byte", "int"), ("uint8_t", "uint32_t"), ("int8_t", "int"), ("uint16_t", "int64_t"), ("int16_t", "int")):
        a, b = P("a", t), P("b", t)
        for op1, op2 in (("+", "/"), ("*", ">>"), ("-", "/"), ("+", "<"), ("*", "%"), ("<<", ">>")):
            inner = B(op1, a, b)
            c = P("c", t)
            e = CMP(op2, inner, c) if op2 in CMPS else B(op2, inner, c)
            if op2 in CMPS:
                yield case("W", "narrow-intermediate/%s%s/%s" % (op1, op2, t), simple("bool", [("a", t), ("b", t), ("c", t)], [("ret", e)]), k=4)
            else:
                yield case("W", "narrow-intermediate/%s%s/%s" % (op1, op2, t), simple(wide, [("a", t), ("b", t), ("c", t)], [("ret", IMP(e, wide))]), k=4)
        # result of a narrow operation used in a wider operation
        w = P("w", wide)
        e = mixed_bin("+", B("+", a, b), w)
        if e is not None:
            yield case("W", "narrow-then-wide/%s" % t, simple(ty(e), [("a", t), ("b", t), ("w", wide)], [("ret", e)]), k=4)


def fam_LIT(types=INT_NAMES):
    """a op <literal>: an integer literal has type int and takes part in the coercion table like any int operand."""
    for t in types:
        a = P("a", t)
        for op in ("+", "-", "*", "/", "%", "&", "|", "^", ">>", "<<", "<", "==", ">="):
            for v in (1, 3, 200):
                for swap in (False, True):
                    e = mixed_bin(op, K(v, "int"), a) if swap else mixed_bin(op, a, K(v, "int"))
                    if e is None:
                        continue
                    yield case("LIT", "literal-%s/%s/%s" % ("left" if swap else "right", op, t), simple(ty(e), [("a", t)], [("ret", e)]), k=9)
        # assignment of a literal / an int expression to a narrower variable converts modulo (test/samples/simple/overflow.c3)
        x = P("x", t)
        for v in (22, 233, 70000):
            e = mixed_bin("+", x, K(v, "int"))
            if e is None or not implicit_ok(ty(e), t):
                continue
            yield case("LIT", "assign-literal-sum/%s" % t, simple(t, [("a", t)], [("var", "x", t, a), ("set", x, IMP(e, t) if ty(e) != t else e), ("ret", x)]), k=9)


def fam_E2(types, roots=BINOPS, inner=BINOPS):
    """depth 2: ((a op1 b) op2 c) and (a op2 (b op1 c))."""
    for t in types:
        a, b, c = P("a", t), P("b", t), P("c", t)
        ps = [("a", t), ("b", t), ("c", t)]
        for op2 in roots:
            for op1 in inner:
                yield case("E2", "(%s)%s/%s" % (op1, op2, t), simple(t, ps, [("ret", B(op2, B(op1, a, b), c))]), k=4)
                yield case("E2", "%s(%s)/%s" % (op2, op1, t), simple(t, ps, [("ret", B(op2, a, B(op1, b, c)))]), k=4)


def fam_E2F(types, ops=BINOPS):
    """depth 2, full tree: ((a op1 b) op2 (c op3 a))."""
    for t in types:
        a, b, c = P("a", t), P("b", t), P("c", t)
        ps = [("a", t), ("b", t), ("c", t)]
        for op2 in ops:
            for op1 in ops:
                for op3 in ops:
                    yield case("E2F", "(%s)%s(%s)/%s" % (op1, op2, op3, t), simple(t, ps, [("ret", B(op2, B(op1, a, b), B(op3, c, a)))]), k=4)


def fam_E3(types):
    """depth 2 ending in a comparison or starting with a unary operator / cast: ((a op b) cmp c), (-(a op b)), cast<T2>(a op b) op2 c."""
    for t in types:
        a, b, c = P("a", t), P("b", t), P("c", t)
        ps = [("a", t), ("b", t), ("c", t)]
        for op in BINOPS:
            for cm in CMPS:
                yield case("E3", "(%s)%s/%s" % (op, cm, t), simple("bool", ps, [("ret", CMP(cm, B(op, a, b), c))]), k=4)
            yield case("E3", "neg(%s)/%s" % (op, t), simple(t, ps[:2], [("ret", ("neg", B(op, a, b), t))]))
            yield case("E3", "(%s)-neg/%s" % (op, t), simple(t, ps[:2], [("ret", B(op, a, ("neg", b, t)))]))
            for t2 in ("int", "byte", "int64_t", "uint16_t"):
                if same_type(t, t2):
                    continue
                d = P("d", t2)
                yield case("E3", "cast(%s)+/%s/%s" % (op, t, t2), simple(t2, [("a", t), ("b", t), ("d", t2)], [("ret", B("+", CAST(B(op, a, b), t2), d))]), k=4)


def fam_ASSOC(types=("int", "byte", "int64_t")):
    """unparenthesised chains of equal-precedence operators associate to the left (test/samples/simple/associativity_of_arithmatic.c3);
    * / % bind tighter than + - as in C."""
    for t in types:
        ps = [("a", t), ("b", t), ("c", t)]
        for c3txt, ctxt, feat in (("a - b - c", None, "left/-"), ("a / b / c", None, "left//"), ("a - b + c", None, "left/-+"),
                                  ("a / b * c", None, "left//*"), ("a % b % c", None, "left/%"), ("a + b * c", None, "prec/+*"),
                                  ("a * b + c", None, "prec/*+"), ("a - b / c", None, "prec/-/"), ("a << b << c", None, "left/<<")):
            a, b, c = P("a", t), P("b", t), P("c", t)
            o = c3txt.split()
            if feat.startswith("left"):
                e = B(o[3], B(o[1], a, b), c)
            elif o[3] in ("*", "/"):
                e = B(o[1], a, B(o[3], b, c))
            else:
                e = B(o[3], B(o[1], a, b), c)
            cs = case("ASSOC", "%s/%s" % (feat, t), simple(t, ps, [("ret", e)]), k=4)
            # the C3 text is written without parentheses; the C text keeps the explicit tree
            cs["c3"] = "function %s f@(%s a, %s b, %s c) {\n  return %s;\n}\n" % (t, t, t, t, c3txt)
            yield cs


def cond_atoms(t="int"):
    a, b, c = P("a", t), P("b", t), P("c", t)
    return [CMP("<", a, b), CMP("==", b, c), CMP(">=", a, c), CMP("!=", a, K(1, t))]


def fam_COND(thorough, t="int"):
    """short-circuit conditions of depth <= 2, as a value and as a branch condition, with a side-effecting right operand."""
    ps = [("a", t), ("b", t), ("c", t)]
    at = cond_atoms(t)
    shapes = []
    for c1, c2 in itertools.product(at, repeat=2):
        if c1 == c2:
            continue
        shapes += [("and", c1, c2, "bool"), ("or", c1, c2, "bool"), ("and", ("not", c1, "bool"), c2, "bool"), ("not", ("or", c1, c2, "bool"), "bool"),
                   ("cmp", "==", c1, c2, "bool"), ("cmp", "!=", c1, ("not", c2, "bool"), "bool")]
    if thorough:
        for c1, c2, c3 in itertools.product(at, repeat=3):
            if c1 == c2 or c2 == c3 or c1 == c3:
                continue
            shapes += [("or", ("and", c1, c2, "bool"), c3, "bool"), ("and", c1, ("or", c2, c3, "bool"), "bool"),
                       ("or", c1, ("and", c2, c3, "bool"), "bool"), ("and", ("or", c1, c2, "bool"), c3, "bool")]
    lo, hi = trange(t)
    for i, s in enumerate(shapes):
        feat = "shape/" + shape_name(s) + ("" if t == "int" else "/" + t)
        vec = [v for v in small3() if all(lo <= x <= hi for x in v)] if lo < 0 else [[x % 4 for x in v] for v in small3() if min(v) >= 0] + [[hi, 1, hi], [hi, hi, 0], [0, hi, 1]]
        yield case("COND", feat + "/value", simple("bool", ps, [("ret", s)]), vecs=vec)
        yield case("COND", feat + "/if", simple(t, ps, [("if", s, [("ret", K(1, t))], []), ("ret", K(0, t))]), vecs=vec)
        if i % 4 == 0:
            yield case("COND", feat + "/boolvar", simple(t, ps, [("var", "t", "bool", s), ("if", P("t", "bool"), [("ret", P("a", t))], [("ret", P("b", t))])]), vecs=vec)
            yield case("COND", feat + "/while", simple(t, ps, [("var", "x", t, K(0, t)), ("while", ("and", s, CMP("<", P("x", t), K(3, t)), "bool"),
                                                                                         [("aug", "+", P("x", t), K(1, t))]), ("ret", P("x", t))]), vecs=vec)
    if t != "int":
        return
    # side effects on the right of and/or must happen only when the left does not decide
    g = P("g@", t)
    ext = fn("bool", [("v", t)], [("set", g, B("+", B("*", g, K(3, t)), P("v", t))), ("ret", CMP(">", P("v", t), K(0, t)))], name="ext@")
    a, b = P("a", t), P("b", t)
    for op in ("and", "or"):
        for left in (CMP("<", a, b), CMP("==", a, K(0, t)), ("not", CMP("<", a, b), "bool")):
            calls = ("call", "ext@", [b], "bool")
            cond = (op, left, calls, "bool")
            prog = {"globals": [("g@", t, K(1, t))], "funcs": [ext, fn(t, [("a", t), ("b", t)], [("if", cond, [("aug", "+", g, K(100, t))], []), ("ret", g)])]}
            yield case("COND", "side-effect/%s/right" % op, prog, vecs=small_vectors([t, t]))
            cond = (op, ("call", "ext@", [a], "bool"), (op, left, calls, "bool"), "bool")
            prog = {"globals": [("g@", t, K(1, t))], "funcs": [ext, fn(t, [("a", t), ("b", t)], [("var", "r", "bool", cond), ("if", P("r", "bool"), [("aug", "+", g, K(100, t))], []), ("ret", g)])]}
            yield case("COND", "side-effect/%s/chain" % op, prog, vecs=small_vectors([t, t]))


def shape_name(s):
    if s[0] == "cmp" and ty(s[2]) == "bool":
        return "%s(%s,%s)" % ({"==": "eq", "!=": "ne"}[s[1]], shape_name(s[2]), shape_name(s[3]))
    if s[0] in ("and", "or"):
        return "%s(%s,%s)" % (s[0], shape_name(s[1]), shape_name(s[2]))
    if s[0] == "not":
        return "not(%s)" % shape_name(s[1])
    return "c"


def small3():
    vs = [list(v) for v in itertools.product([-1, 0, 1, 2], repeat=3)]
    vs.sort(key=lambda v: (sum(abs(x) for x in v), v))
    return vs


# ---- statements

def fam_S(thorough):
    """statement skeletons of nesting depth <= 2 over {if, if/else, while, for, switch, return inside} with bodies from a menu over two
    locals, one global and a call; loops are bounded by construction (trip counts a & 7, b & 3)."""
    t = "int"
    a, b, x, y, g, i, j = P("a", t), P("b", t), P("x", t), P("y", t), P("g@", t), P("i", t), P("j", t)
    ps = [("a", t), ("b", t)]
    ext = fn(t, [("v", t)], [("set", g, B("+", g, P("v", t))), ("ret", B("+", B("*", P("v", t), K(3, t)), K(1, t)))], name="ext@")
    menu = [("aug", "+", x, a), ("set", x, B("-", B("*", x, K(2, t)), b)), ("set", g, B("+", g, x)), ("set", x, ("call", "ext@", [x], t))]
    if thorough:
        menu += [("aug", "-", y, K(1, t)), ("set", y, B("^", y, x))]
    conds = [CMP("<", a, b), CMP(">", x, K(3, t))]
    if thorough:
        conds += [("and", CMP("<", a, b), CMP("<", b, K(3, t)), "bool"), ("or", CMP("==", a, K(0, t)), CMP("<", x, b), "bool"),
                  ("not", CMP("==", B("&", a, K(1, t)), K(0, t)), "bool")]
    alt = ("aug", "-", x, b)
    na, nb = B("&", a, K(7, t)), B("&", b, K(3, t))

    def heads(v, bound):
        hs = [("while", lambda body: [("set", v, K(0, t)), ("while", CMP("<", v, bound), body + [("aug", "+", v, K(1, t))])]),
              ("for", lambda body: [("for", ("set", v, K(0, t)), CMP("<", v, bound), ("aug", "+", v, K(1, t)), body)])]
        if thorough:
            hs.append(("for-down", lambda body: [("for", ("set", v, bound), CMP(">", v, K(0, t)), ("set", v, B("-", v, K(1, t))), body)]))
            hs.append(("while-cond2", lambda body: [("set", v, K(0, t)), ("while", ("and", CMP("<", v, bound), CMP("<", x, K(50, t)), "bool"),
                                                                          body + [("aug", "+", v, K(1, t))])]))
        return hs

    def switch(e, bodies, default):
        return ("switch", e, [(0, bodies[0]), (1, bodies[1]), (5, bodies[2])], default)

    def wrap(stmts):
        # only what the statements use is declared, so that witnesses stay small
        txt = repr(stmts)
        use = {n: ("'%s'" % n) in txt for n in ("y", "i", "j", "g@", "ext@")}
        body = [("var", "x", t, K(0, t))]
        body += [("var", n, t, K(1 if n == "y" else 0, t)) for n in ("y", "i", "j") if use[n]]
        body += stmts
        obs = x
        if use["y"] or use["g@"] or use["ext@"]:
            rest = B("^", y, g) if use["y"] and (use["g@"] or use["ext@"]) else (y if use["y"] else g)
            obs = B("+", B("*", x, K(16, t)), rest)
        body.append(("ret", obs))
        prog = {"funcs": ([ext] if use["ext@"] else []) + [fn(t, ps, body)]}
        if use["g@"] or use["ext@"]:
            prog["globals"] = [("g@", t, K(2, t))]
        return prog

    vec = small_vectors([t, t])

    def emit(feat, stmts):
        return case("S", feat, wrap(stmts), vecs=vec)

    # depth 1
    for c in conds:
        for s in menu:
            yield emit("if", [("if", c, [s], [])])
            yield emit("if-else", [("if", c, [s], [alt])])
            yield emit("if-return", [("if", c, [s, ("ret", x)], []), alt])
    for tag, mk in heads(i, na):
        for s in menu:
            yield emit(tag, mk([s]))
            yield emit(tag + "+i", mk([s, ("aug", "+", x, i)]))
    for s in menu:
        for sel in (a, B("&", a, K(7, t)), B("+", a, b)):
            yield emit("switch", [switch(sel, [[s], [alt], [s, alt]], [("set", x, K(9, t))])])
    yield emit("switch-empty-default", [switch(a, [[menu[0]], [alt], [menu[1]]], [])])
    yield emit("switch-return", [switch(a, [[("ret", K(10, t))], [menu[0]], [("ret", b)]], [("set", x, K(9, t))])])

    # depth 2: loop containing a compound
    for tag, mk in heads(i, na):
        inner = []
        for c in conds + [CMP("==", i, K(1, t)), CMP("<", i, b)]:
            for s in menu[:5 if thorough else 2]:
                inner.append(("if", [("if", c, [s], [])]))
                inner.append(("if-else", [("if", c, [s], [alt])]))
            inner.append(("if-return", [("if", c, [("ret", B("+", x, i))], [])]))
        for tag2, mk2 in heads(j, nb):
            for s in menu[:4 if thorough else 2]:
                inner.append((tag2, mk2([s])))
                inner.append((tag2 + "+ij", mk2([("aug", "+", x, B("*", i, j))])))
        for s in menu[:2]:
            inner.append(("switch", [switch(i, [[s], [alt], [("aug", "+", x, i)]], [("aug", "+", x, K(1, t))])]))
        for tag2, st in inner:
            yield emit("%s/%s" % (tag, tag2), mk(st))
            if thorough:
                yield emit("%s/%s" % (tag, tag2), mk([menu[0]] + st))
                yield emit("%s/%s" % (tag, tag2), mk(st + [menu[0]]))
    # depth 2: if / switch containing a compound
    for c in conds[:3]:
        for tag, mk in heads(i, na):
            for s in menu[:2]:
                yield emit("if/%s" % tag, [("if", c, mk([s]), [])])
                yield emit("if-else/%s" % tag, [("if", c, [alt], mk([s]))])
        for c2 in conds:
            for s in menu[:2]:
                yield emit("if/if", [("if", c, [("if", c2, [s], [])], [alt])])
                yield emit("if-else/if-else", [("if", c, [s], [("if", c2, [alt], [menu[1]])])])
        yield emit("if/switch", [("if", c, [switch(b, [[menu[0]], [alt], [menu[1]]], [("set", x, K(9, t))])], [alt])])
    for tag, mk in heads(i, na):
        yield emit("switch/%s" % tag, [switch(b, [mk([menu[0]]), [alt], mk([menu[1]])], mk([("aug", "+", x, i)]))])
    yield emit("switch/if", [switch(a, [[("if", conds[0], [menu[0]], [alt])], [alt], [("if", conds[1], [menu[1]], [])]], [("set", x, K(9, t))])])
    yield emit("switch/switch", [switch(a, [[switch(b, [[menu[0]], [alt], [menu[1]]], [("set", x, K(7, t))])], [alt], [menu[1]]], [("set", x, K(9, t))])])

    # loops over other counter types (wrap-around of the counter is part of fixed-width semantics only for unsigned)
    for ct in ("byte", "uint16_t", "int8_t", "int64_t", "uint64_t"):
        n = P("n", ct)
        body = [("var", "x", t, K(0, t)), ("var", "n", ct, K(0, ct)),
                ("for", ("set", n, K(0, ct)), CMP("<", n, CAST(B("&", a, K(7, t)), ct)), ("aug", "+", n, K(1, ct)), [("aug", "+", x, B("+", b, CAST(n, t)))]),
                ("ret", x)]
        yield case("S", "for/counter-%s" % ct, simple(t, ps, body), vecs=vec)
    # recursion and calls
    rec = fn(t, ps, [("if", CMP("<=", a, K(0, t)), [("ret", b)], []), ("ret", ("call", "f@", [B("-", a, K(1, t)), B("+", b, a)], t))])
    yield case("S", "call/recursion", {"funcs": [rec]}, vecs=vec)
    sub = fn(t, [("p", t), ("q", t)], [("ret", B("-", P("p", t), P("q", t)))], name="sub@")
    yield case("S", "call/argument-order", {"funcs": [sub, fn(t, ps, [("ret", ("call", "sub@", [b, a], t))])]}, vecs=vec)
    yield case("S", "call/nested", {"funcs": [sub, fn(t, ps, [("ret", ("call", "sub@", [("call", "sub@", [a, b], t), ("call", "sub@", [b, K(1, t)], t)], t))])]}, vecs=vec)
    vproc = fn("void", [("v", t)], [("if", CMP("<", P("v", t), K(0, t)), [("ret", None)], []), ("set", g, B("+", g, P("v", t)))], name="proc@")
    yield case("S", "call/void-early-return", {"globals": [("g@", t, K(2, t))], "funcs": [vproc, fn(t, ps, [("do", ("call", "proc@", [a], "void")), ("do", ("call", "proc@", [b], "void")), ("ret", g)])]}, vecs=vec)


# ---- aggregates

def fam_A(thorough):
    t = "int"
    a, b = P("a", t), P("b", t)
    ps = [("a", t), ("b", t)]
    vec = small_vectors([t, t])
    ftypes = ["int", "byte", "int16_t", "int64_t", "uint32_t", "bool", "double"] if thorough else ["int", "byte", "int64_t"]
    # struct with fields of several types: write every field, read them back combined (layout independent)
    fields = [("f%d" % n, ft) for n, ft in enumerate(["byte", "int", "int8_t", "int64_t", "uint16_t", "byte"])]
    S = ("struct", "S@")
    for where in ("global", "local"):
        s = P("s@" if where == "global" else "s", S)
        decl = [] if where == "global" else [("var", "s", S, None)]
        gl = [("s@", S, None)] if where == "global" else []
        for k_, (fname, ft) in enumerate(fields):
            # write all fields with distinct values derived from a, b; return field k widened to int64
            body = list(decl)
            for n, (fn_, ft2) in enumerate(fields):
                body.append(("set", ("fld", s, fn_, ft2), CAST(B("+", a, K(n * 3, t)) if n % 2 == 0 else B("-", b, K(n, t)), ft2)))
            body.append(("ret", CAST(("fld", s, fname, ft), "int64_t")))
            yield case("A", "struct-%s/field/%s" % (where, cls(ft)), {"types": [("S@", fields)], "globals": gl, "funcs": [fn("int64_t", ps, body)]}, vecs=vec)
        # a later write must not clobber a neighbour
        for k_ in range(len(fields) - 1):
            f1, t1 = fields[k_]
            f2, t2 = fields[k_ + 1]
            body = list(decl) + [("set", ("fld", s, f1, t1), CAST(a, t1)), ("set", ("fld", s, f2, t2), CAST(b, t2)), ("set", ("fld", s, f1, t1), CAST(a, t1)),
                                 ("ret", B("+", B("*", CAST(("fld", s, f2, t2), "int64_t"), K(1000, "int64_t")), CAST(("fld", s, f1, t1), "int64_t")))]
            yield case("A", "struct-%s/neighbour/%s-%s" % (where, cls(t1), cls(t2)), {"types": [("S@", fields)], "globals": gl, "funcs": [fn("int64_t", ps, body)]}, vecs=vec)
    # nested struct and array inside struct
    inner = [("u", "byte"), ("v", "int")]
    outer = [("h", "byte"), ("in", ("struct", "I@")), ("arr", ("arr", "int16_t", 3)), ("z", "int")]
    O = ("struct", "O@")
    o = P("o@", O)
    types = [("I@", inner), ("O@", outer)]
    body = [("set", ("fld", o, "h", "byte"), CAST(a, "byte")), ("set", ("fld", ("fld", o, "in", ("struct", "I@")), "v", "int"), b),
            ("set", ("fld", ("fld", o, "in", ("struct", "I@")), "u", "byte"), CAST(b, "byte")),
            ("set", ("idx", ("fld", o, "arr", ("arr", "int16_t", 3)), B("&", a, K(1, t)), "int16_t"), CAST(a, "int16_t")),
            ("set", ("idx", ("fld", o, "arr", ("arr", "int16_t", 3)), K(2, t), "int16_t"), CAST(b, "int16_t")),
            ("set", ("fld", o, "z", "int"), B("^", a, b))]
    reads = [("nested-field", IMP(("fld", ("fld", o, "in", ("struct", "I@")), "v", "int"), "int")),
             ("nested-byte", CAST(("fld", ("fld", o, "in", ("struct", "I@")), "u", "byte"), "int")),
             ("array-in-struct", CAST(("idx", ("fld", o, "arr", ("arr", "int16_t", 3)), B("&", a, K(1, t)), "int16_t"), "int")),
             ("array-in-struct-2", CAST(("idx", ("fld", o, "arr", ("arr", "int16_t", 3)), K(2, t), "int16_t"), "int")),
             ("after-array", ("fld", o, "z", "int")), ("first", CAST(("fld", o, "h", "byte"), "int"))]
    for name, rd in reads:
        yield case("A", "struct-nested/%s" % name, {"types": types, "globals": [("o@", O, None)], "funcs": [fn(t, ps, body + [("ret", rd)])]}, vecs=vec)
    # arrays: element types, global and local, masked indices, write then read another index
    for et in ftypes:
        if et == "bool":
            continue
        AT = ("arr", et, 4)
        for where in ("global", "local"):
            arr = P("arr@" if where == "global" else "arr", AT)
            gl = [("arr@", AT, None)] if where == "global" else []
            zero = [("set", ("idx", arr, K(n, t), et), K(0, et)) for n in range(4)]
            decl = ([] if where == "global" else [("var", "arr", AT, None)]) + zero
            ia, ib = B("&", a, K(3, t)), B("&", b, K(3, t))
            va = CAST(a, et) if et != "int" else a
            body = decl + [("set", ("idx", arr, ia, et), va), ("set", ("idx", arr, ib, et), CAST(B("+", b, K(1, t)), et) if et != "int" else B("+", b, K(1, t))),
                           ("ret", CAST(("idx", arr, ia, et), "int64_t") if et != "double" else CAST(("idx", arr, ia, et), "int64_t"))]
            if et == "double":
                body[-1] = ("ret", CAST(B("+", ("idx", arr, ia, et), ("idx", arr, K(1, t), et)), "int64_t"))
            yield case("A", "array-%s/%s" % (where, cls(et)), {"globals": gl, "funcs": [fn("int64_t", ps, body)]}, vecs=vec)
            body2 = decl + [("for", ("set", P("i", t), K(0, t)), CMP("<", P("i", t), K(4, t)), ("aug", "+", P("i", t), K(1, t)),
                             [("set", ("idx", arr, P("i", t), et), CAST(B("+", B("*", P("i", t), a), b), et) if et != "int" else B("+", B("*", P("i", t), a), b))]),
                            ("ret", CAST(("idx", arr, ia, et), "int64_t"))]
            body2.insert(0, ("var", "i", t, K(0, t)))
            if et != "double":
                yield case("A", "array-%s-loop/%s" % (where, cls(et)), {"globals": gl, "funcs": [fn("int64_t", ps, body2)]}, vecs=vec)
    # initialisers
    yield case("A", "init/global-scalar", {"globals": [("g@", t, K(60, t)), ("h@", "byte", K(6, t))],
                                           "funcs": [fn(t, ps, [("ret", B("+", B("+", P("g@", t), CAST(P("h@", "byte"), t)), a))])]}, vecs=vec)
    AT = ("arr", t, 3)
    yield case("A", "init/global-array", {"globals": [("ga@", AT, [K(9, t), K(5, t), K(7, t)])],
                                          "funcs": [fn(t, ps, [("ret", B("+", ("idx", P("ga@", AT), B("&", a, K(1, t)), t), ("idx", P("ga@", AT), K(2, t), t)))])]}, vecs=vec)
    yield case("A", "init/local-array", simple(t, ps, [("var", "la", AT, [a, B("+", a, b), K(4, t)]),
                                                       ("ret", B("-", ("idx", P("la", AT), B("&", b, K(1, t)), t), ("idx", P("la", AT), K(2, t), t)))]), vecs=vec)
    BT = ("arr", "byte", 4)
    yield case("A", "init/global-byte-array", {"globals": [("gb@", BT, [K(1, t), K(200, t), K(3, t), K(255, t)])],
                                               "funcs": [fn(t, ps, [("ret", CAST(("idx", P("gb@", BT), B("&", a, K(3, t)), "byte"), t))])]}, vecs=vec)
    # pointers: to local, to global, to field, to element, passed to a function, written through
    g = P("g@", t)
    pt = ("ptr", t)
    p = P("p", pt)
    yield case("A", "pointer/global", {"globals": [("g@", t, K(5, t))], "funcs": [fn(t, ps, [("var", "p", pt, None), ("set", p, ("addr", g, pt)), ("set", ("deref", p, t), B("+", ("deref", p, t), a)), ("ret", B("-", g, b))])]}, vecs=vec)
    yield case("A", "pointer/local", simple(t, ps, [("var", "v", t, a), ("var", "p", pt, None), ("set", p, ("addr", P("v", t), pt)), ("set", ("deref", p, t), B("*", ("deref", p, t), b)), ("ret", P("v", t))]), vecs=vec)
    yield case("A", "pointer/param", simple(t, ps, [("var", "p", pt, None), ("set", p, ("addr", a, pt)), ("aug", "+", ("deref", p, t), b), ("ret", a)]), vecs=vec)
    swap = fn("void", [("p", pt), ("q", pt)], [("var", "tmp", t, ("deref", P("p", pt), t)), ("set", ("deref", P("p", pt), t), ("deref", P("q", pt), t)), ("set", ("deref", P("q", pt), t), P("tmp", t))], name="swap@")
    yield case("A", "pointer/byref-swap", {"funcs": [swap, fn(t, ps, [("do", ("call", "swap@", [("addr", a, pt), ("addr", b, pt)], "void")), ("ret", B("-", a, b))])]}, vecs=vec)
    AT4 = ("arr", t, 4)
    arr = P("arr@", AT4)
    yield case("A", "pointer/element", {"globals": [("arr@", AT4, [K(1, t), K(2, t), K(3, t), K(4, t)])],
                                        "funcs": [fn(t, ps, [("var", "p", pt, None), ("set", p, ("addr", ("idx", arr, B("&", a, K(3, t)), t), pt)), ("set", ("deref", p, t), b),
                                                             ("ret", B("+", ("idx", arr, B("&", a, K(3, t)), t), ("idx", arr, K(0, t), t)))])]}, vecs=vec)
    fields2 = [("c", "byte"), ("n", t), ("m", t)]
    S2 = ("struct", "T@")
    ps2 = ("ptr", S2)
    s2 = P("t@", S2)
    sp = P("sp", ps2)
    yield case("A", "pointer/arrow", {"types": [("T@", fields2)], "globals": [("t@", S2, None)],
                                      "funcs": [fn(t, ps, [("var", "sp", ps2, None), ("set", sp, ("addr", s2, ps2)), ("set", ("arrow", sp, "n", t), a), ("set", ("arrow", sp, "m", t), b),
                                                           ("set", ("arrow", sp, "c", "byte"), CAST(b, "byte")),
                                                           ("ret", B("-", B("*", ("fld", s2, "n", t), K(3, t)), B("+", ("fld", s2, "m", t), CAST(("arrow", sp, "c", "byte"), t))))])]}, vecs=vec)
    yield case("A", "pointer/field", {"types": [("T@", fields2)], "globals": [("t@", S2, None)],
                                      "funcs": [fn(t, ps, [("var", "p", pt, None), ("set", ("fld", s2, "n", t), a), ("set", p, ("addr", ("fld", s2, "m", t), pt)), ("set", ("deref", p, t), b),
                                                           ("ret", B("-", ("fld", s2, "n", t), ("fld", s2, "m", t)))])]}, vecs=vec)
    getn = fn(t, [("q", ps2)], [("set", ("arrow", P("q", ps2), "m", t), B("+", ("arrow", P("q", ps2), "m", t), K(1, t))), ("ret", ("arrow", P("q", ps2), "n", t))], name="getn@")
    yield case("A", "pointer/struct-param", {"types": [("T@", fields2)], "globals": [("t@", S2, None)],
                                             "funcs": [getn, fn(t, ps, [("set", ("fld", s2, "n", t), a), ("set", ("fld", s2, "m", t), b),
                                                                        ("var", "r", t, ("call", "getn@", [("addr", s2, ps2)], t)),
                                                                        ("ret", B("+", B("*", P("r", t), K(100, t)), ("fld", s2, "m", t)))])]}, vecs=vec)
    bp = ("ptr", "byte")
    yield case("A", "pointer/byte", simple(t, ps, [("var", "v", "byte", CAST(a, "byte")), ("var", "p", bp, None), ("set", P("p", bp), ("addr", P("v", "byte"), bp)),
                                                   ("aug", "+", ("deref", P("p", bp), "byte"), CAST(b, "byte")), ("ret", CAST(P("v", "byte"), t))]), vecs=vec)
    # array of structs
    AS = ("arr", S2, 3)
    as_ = P("as@", AS)
    ia = B("&", a, K(1, t))
    yield case("A", "array-of-struct", {"types": [("T@", fields2)], "globals": [("as@", AS, None)],
                                        "funcs": [fn(t, ps, [("set", ("fld", ("idx", as_, ia, S2), "m", t), a), ("set", ("fld", ("idx", as_, K(2, t), S2), "n", t), b),
                                                             ("set", ("fld", ("idx", as_, ia, S2), "c", "byte"), CAST(b, "byte")),
                                                             ("ret", B("+", B("*", ("fld", ("idx", as_, ia, S2), "m", t), K(7, t)),
                                                                       B("+", ("fld", ("idx", as_, K(2, t), S2), "n", t), CAST(("fld", ("idx", as_, ia, S2), "c", "byte"), t))))])]}, vecs=vec)
    # sizeof of base types
    for st, n in (("int", 4), ("byte", 1), ("int16_t", 2), ("int64_t", 8), ("uint32_t", 4), ("double", 8)):
        cs = case("A", "sizeof/%s" % st, simple(t, ps, [("ret", B("+", a, K(n, t)))]), vecs=vec[:8])
        cs["c3"] = cs["c3"].replace("return (a + %d);" % n, "return (a + sizeof(%s));" % st)
        cs["src"] = cs["src"].replace("return (a + ((int)%dULL));" % n, "return (a + (int)sizeof(%s));" % CNAME[st])
        yield cs


def raw_case(fam, feat, c3, c, ret, params, vecs, globals_=(), cmp_globals=(), mods=None):
    """A case written as two texts (used where the abstract tree has no node, e.g. const definitions, imports, literals' spelling)."""
    cs = {"fam": fam, "feat": feat, "c3": c3, "src": C_HELPERS + c, "fname": "f@", "ret": CNAME[ret], "params": [CNAME[t] for t in params],
          "c3params": list(params), "c3ret": ret, "vectors": vecs, "globals": list(globals_), "cmp_globals": list(cmp_globals)}
    if mods:
        cs["c3mods"] = mods
    return cs


def const_trees(lits):
    """constant expressions of depth <= 2 over + - * / % on non-negative literals."""
    ops = ["+", "-", "*", "/", "%"]
    d1 = [(op, a, b) for op in ops for a in lits for b in lits if not (op in "/%" and b == 0)]
    d1.sort(key=lambda e: e[1] == e[2])  # inexact quotients first: the recorded witness shows a wrong value, not only a wrong kind
    for e in d1:
        yield e
    for op2 in ops:
        for op1, a, b in d1[::3]:
            for c in lits[:3]:
                yield (op2, (op1, a, b), c)
                yield (op2, c, (op1, a, b))


def const_text(e):
    if isinstance(e, int):
        return str(e)
    return "(%s %s %s)" % (const_text(e[1]), e[0], const_text(e[2]))


def const_value_defined(e):
    """C value of the tree in int arithmetic, or None when C leaves it undefined (division by zero, overflow)."""
    if isinstance(e, int):
        return e
    a, b = const_value_defined(e[1]), const_value_defined(e[2])
    if a is None or b is None:
        return None
    op = e[0]
    if op in "/%":
        if b == 0:
            return None
        q = abs(a) // abs(b) * (1 if (a < 0) == (b < 0) else -1)
        r = q if op == "/" else a - q * b
    else:
        r = {"+": a + b, "-": a - b, "*": a * b}[op]
    return r if -(1 << 31) <= r < (1 << 31) else None


def const_cases(e, with_global=True):
    """The two places where the front end evaluates an integer constant expression itself."""
    vec = [[v] for v in (0, 1, -3, 7)]
    txt = const_text(e)
    tree = const_json(e)
    cs = raw_case("CONST", "const-def", "const int k@ = %s;\nfunction int f@(int a) {\n  return (a + k@);\n}\n" % txt,
                  "static const int k@ = %s;\nint f@(int a) { return (a + k@); }\n" % txt, "int", ["int"], vec)
    cs["const_tree"] = tree
    out = [cs]
    if with_global:
        cs = raw_case("CONST", "global-init", "var int gi@ = %s;\nfunction int f@(int a) {\n  return (a + gi@);\n}\n" % txt,
                      "int gi@ = %s;\nint f@(int a) { return (a + gi@); }\n" % txt, "int", ["int"], vec, ["gi@"], ["gi@"])
        cs["const_tree"] = tree
        out.append(cs)
    return out


def const_json(e):
    return e if isinstance(e, int) else [e[0], const_json(e[1]), const_json(e[2])]


def const_subtrees(e):
    """post-order list of the operator nodes of a constant tree (JSON form)."""
    if isinstance(e, int):
        return []
    return const_subtrees(e[1]) + const_subtrees(e[2]) + [e]


def fam_CONST(thorough):
    """`const` definitions and initial values of globals are evaluated by the front end itself: C3 integer arithmetic on literals."""
    vec = [[v] for v in (0, 1, -3, 7)]
    lits = [7, 2, 0, 3, 100] if thorough else [7, 2, 0]
    seen = 0
    for e in const_trees(lits):
        if const_value_defined(e) is None:
            continue
        txt = const_text(e)
        depth = "d1" if isinstance(e[1], int) and isinstance(e[2], int) else "d2"
        ops = e[0] if depth == "d1" else "".join(sorted({e[0]} | {x[0] for x in e[1:] if isinstance(x, tuple)}))
        seen += 1
        if depth == "d2" and not thorough and seen % 4:
            continue
        for cs in const_cases(e, depth == "d1" or thorough):
            yield cs
    # negative operands exist only as (0 - n): the sign rules of / and % (truncation, remainder has the sign of the dividend)
    for e in (("/", ("-", 0, 7), 2), ("%", ("-", 0, 7), 2), ("/", 7, ("-", 0, 2)), ("%", 7, ("-", 0, 2)), ("/", ("-", 0, 7), ("-", 0, 2)),
              ("%", ("-", 0, 7), ("-", 0, 2)), ("*", ("-", 0, 7), 3), ("-", ("-", 0, 7), 3)):
        for cs in const_cases(e, True):
            yield cs
    # constants referring to constants, used as array size and in a switch label position (labels are literals only)
    yield raw_case("CONST", "const-ref", "const int k1@ = 5;\nconst int k2@ = (k1@ * 3);\nfunction int f@(int a) {\n  return (a + k2@);\n}\n",
                   "static const int k1@ = 5; static const int k2@ = (5 * 3);\nint f@(int a) { return (a + k2@); }\n", "int", ["int"], vec)
    yield raw_case("CONST", "const-array-size", "const int n@ = (2 + 2);\nvar int[n@] arr@;\nfunction int f@(int a) {\n  arr@[3] = a;\n  arr@[0] = 1;\n  return (arr@[3] + arr@[0]);\n}\n",
                   "int arr@[4];\nint f@(int a) { arr@[3] = a; arr@[0] = 1; return (arr@[3] + arr@[0]); }\n", "int", ["int"], vec, ["arr@"], ["arr@"])
    yield raw_case("CONST", "const-byte", "const byte kb@ = 200;\nfunction int f@(int a) {\n  return (a + cast<int>(kb@));\n}\n",
                   "static const unsigned char kb@ = 200;\nint f@(int a) { return (a + (int)kb@); }\n", "int", ["int"], vec)
    yield raw_case("CONST", "hex-literal", "function int f@(int a) {\n  return ((a + 0x1F) ^ 0xff);\n}\n",
                   "int f@(int a) { return ((a + 0x1F) ^ 0xff); }\n", "int", ["int"], vec)
    yield raw_case("CONST", "const-double", "const double kd@ = 2.5;\nfunction double f@(int a) {\n  return (cast<double>(a) * kd@);\n}\n",
                   "static const double kd@ = 2.5;\ndouble f@(int a) { return ((double)a * kd@); }\n", "double", ["int"], vec)


def fam_MOD():
    """two modules: imported functions, variables and types are the same objects in both."""
    vec = small_vectors(["int", "int"])
    lib = ("module lib@;\npublic var int counter@ = 3;\npublic function int twice@(int v) {\n  counter@ += 1;\n  return (v + v);\n}\n"
           "public type struct { int p; byte q; } pair@;\npublic function int sub@(int p, int q) {\n  return (p - q);\n}\n")
    clib = ("int counter@ = 3;\nint twice@(int v) { counter@ = counter@ + 1; return (v + v); }\ntypedef struct { int p; unsigned char q; } pair@;\n"
            "int sub@(int p, int q) { return (p - q); }\n")
    yield raw_case("MOD", "import/function", "import lib@;\nfunction int f@(int a, int b) {\n  return (lib@.twice@(a) - lib@.sub@(b, a));\n}\n",
                   clib + "int f@(int a, int b) { return (twice@(a) - sub@(b, a)); }\n", "int", ["int", "int"], vec, ["counter@"], [], mods=[lib])
    yield raw_case("MOD", "import/variable", "import lib@;\nfunction int f@(int a, int b) {\n  lib@.counter@ = (lib@.counter@ + a);\n  var int r = lib@.twice@(b);\n  return (r + lib@.counter@);\n}\n",
                   clib + "int f@(int a, int b) { counter@ = (counter@ + a); int r = twice@(b); return (r + counter@); }\n", "int", ["int", "int"], vec, ["counter@"], [], mods=[lib])
    yield raw_case("MOD", "import/type", "import lib@;\nvar lib@.pair@ pr@;\nfunction int f@(int a, int b) {\n  pr@.p = a;\n  pr@.q = cast<byte>(b);\n  return (pr@.p + cast<int>(pr@.q));\n}\n",
                   clib + "pair@ pr@;\nint f@(int a, int b) { pr@.p = a; pr@.q = (unsigned char)b; return (pr@.p + (int)pr@.q); }\n", "int", ["int", "int"], vec, ["counter@", "pr@"], [], mods=[lib])


def fam_X(thorough):
    """further statement forms: shorthand assignment through every kind of lvalue, bool storage, typedef'd names, literal conditions,
    unary plus, a local hiding a global."""
    t = "int"
    a, b = P("a", t), P("b", t)
    ps = [("a", t), ("b", t)]
    vec = small_vectors([t, t])
    AT = ("arr", t, 4)
    arr = P("arr@", AT)
    S = ("struct", "S@")
    s = P("s@", S)
    fields = [("c", "byte"), ("n", t), ("d", "byte")]
    pt = ("ptr", t)
    ia = B("&", a, K(3, t))
    for op in AUGOPS:
        yield case("X", "aug-lvalue/element/%s=" % op, {"globals": [("arr@", AT, [K(1, t), K(2, t), K(3, t), K(4, t)])],
                                                        "funcs": [fn(t, ps, [("aug", op, ("idx", arr, ia, t), b), ("ret", B("+", ("idx", arr, ia, t), ("idx", arr, K(1, t), t)))])]}, vecs=vec)
        yield case("X", "aug-lvalue/field/%s=" % op, {"types": [("S@", fields)], "globals": [("s@", S, None)],
                                                      "funcs": [fn(t, ps, [("set", ("fld", s, "n", t), a), ("set", ("fld", s, "d", "byte"), K(9, "byte")), ("aug", op, ("fld", s, "n", t), b),
                                                                           ("ret", B("+", ("fld", s, "n", t), CAST(("fld", s, "d", "byte"), t)))])]}, vecs=vec)
        yield case("X", "aug-lvalue/deref/%s=" % op, simple(t, ps, [("var", "v", t, a), ("var", "p", pt, None), ("set", P("p", pt), ("addr", P("v", t), pt)),
                                                                    ("aug", op, ("deref", P("p", pt), t), b), ("ret", P("v", t))]), vecs=vec)
        yield case("X", "aug-lvalue/byte-field/%s=" % op, {"types": [("S@", fields)], "globals": [("s@", S, None)],
                                                           "funcs": [fn(t, ps, [("set", ("fld", s, "c", "byte"), CAST(a, "byte")), ("set", ("fld", s, "n", t), K(77, t)),
                                                                                ("aug", op, ("fld", s, "c", "byte"), CAST(b, "byte")),
                                                                                ("ret", B("+", B("*", CAST(("fld", s, "c", "byte"), t), K(1000, t)), ("fld", s, "n", t)))])]}, vecs=vec)
    # the index / address expression of a shorthand assignment is evaluated once
    ext = fn(t, [("v", t)], [("set", P("g@", t), B("+", P("g@", t), K(1, t))), ("ret", B("&", P("v", t), K(3, t)))], name="ext@")
    yield case("X", "aug-lvalue/index-evaluated-once", {"globals": [("g@", t, K(0, t)), ("arr@", AT, [K(1, t), K(2, t), K(3, t), K(4, t)])],
                                                        "funcs": [ext, fn(t, ps, [("aug", "+", ("idx", arr, ("call", "ext@", [a], t), t), b),
                                                                                  ("ret", B("+", B("*", P("g@", t), K(100, t)), ("idx", arr, ia, t)))])]}, vecs=vec)
    # bool stored in a variable, a global, a struct field, an array; passed and returned
    bt = "bool"
    c1 = CMP("<", a, b)
    yield case("X", "bool/global", {"globals": [("flag@", bt, None)], "funcs": [fn(t, ps, [("set", P("flag@", bt), c1), ("if", P("flag@", bt), [("ret", K(1, t))], []), ("ret", K(0, t))])]}, vecs=vec)
    yield case("X", "bool/field", {"types": [("B@", [("x", "byte"), ("f", bt), ("y", "byte")])], "globals": [("bs@", ("struct", "B@"), None)],
                                   "funcs": [fn(t, ps, [("set", ("fld", P("bs@", ("struct", "B@")), "y", "byte"), K(1, "byte")), ("set", ("fld", P("bs@", ("struct", "B@")), "f", bt), c1),
                                                        ("set", ("fld", P("bs@", ("struct", "B@")), "x", "byte"), K(1, "byte")),
                                                        ("if", ("fld", P("bs@", ("struct", "B@")), "f", bt), [("ret", K(1, t))], []), ("ret", K(0, t))])]}, vecs=vec)
    yield case("X", "bool/array", {"globals": [("ba@", ("arr", bt, 2), None)],
                                   "funcs": [fn(t, ps, [("set", ("idx", P("ba@", ("arr", bt, 2)), K(0, t), bt), c1), ("set", ("idx", P("ba@", ("arr", bt, 2)), K(1, t), bt), ("not", c1, bt)),
                                                        ("if", ("and", ("idx", P("ba@", ("arr", bt, 2)), K(1, t), bt), ("not", ("idx", P("ba@", ("arr", bt, 2)), K(0, t), bt), bt), bt), [("ret", K(1, t))], []),
                                                        ("ret", K(0, t))])]}, vecs=vec)
    neg = fn(bt, [("v", bt)], [("ret", ("not", P("v", bt), bt))], name="neg@")
    yield case("X", "bool/argument-and-result", {"funcs": [neg, fn(t, ps, [("if", ("call", "neg@", [c1], bt), [("ret", a)], []), ("ret", b)])]}, vecs=vec)
    # literal conditions
    for lit, name in ((True, "true"), (False, "false")):
        kl = K(lit, bt)
        yield case("X", "literal-cond/if-%s" % name, simple(t, ps, [("if", kl, [("ret", a)], [("ret", b)])]), vecs=vec)
        yield case("X", "literal-cond/and-%s" % name, simple(t, ps, [("if", ("and", c1, kl, bt), [("ret", a)], []), ("ret", b)]), vecs=vec)
        yield case("X", "literal-cond/or-%s" % name, simple(t, ps, [("if", ("or", kl, c1, bt), [("ret", a)], []), ("ret", b)]), vecs=vec)
        yield case("X", "literal-cond/value-%s" % name, simple(bt, ps, [("ret", ("or", ("and", c1, kl, bt), ("not", kl, bt), bt))]), vecs=vec)
    yield case("X", "literal-cond/while-false", simple(t, ps, [("var", "x", t, a), ("while", K(False, bt), [("set", P("x", t), b)]), ("ret", P("x", t))]), vecs=vec)
    yield case("X", "literal-cond/while-true-return", simple(t, ps, [("var", "x", t, K(0, t)), ("while", K(True, bt), [("aug", "+", P("x", t), K(1, t)),
                                                                                                                     ("if", CMP(">", P("x", t), B("&", a, K(7, t))), [("ret", B("+", P("x", t), b))], [])]), ("ret", K(0, t))]), vecs=vec)
    # typedef'd names
    cs = case("X", "typedef/alias", simple(t, ps, [("var", "x", t, B("*", a, b)), ("ret", B("-", P("x", t), a))]), vecs=vec)
    cs["c3"] = "type int my@;\ntype my@ my2@;\nfunction my2@ f@(my@ a, int b) {\n  var my2@ x = (a * b);\n  return (x - a);\n}\n"
    yield cs
    cs = case("X", "typedef/pointer", {"globals": [("g@", t, K(5, t))], "funcs": [fn(t, ps, [("var", "p", pt, None), ("set", P("p", pt), ("addr", P("g@", t), pt)), ("set", ("deref", P("p", pt), t), B("+", a, b)), ("ret", B("*", P("g@", t), K(2, t)))])]}, vecs=vec)
    cs["c3"] = cs["c3"].replace("var int* p;", "var ip@ p;").replace("var int g@", "type int* ip@;\nvar int g@")
    yield cs
    # a local (and a parameter) hiding a global of the same name
    cs = raw_case("X", "scope/local-hides-global", "var int h@ = 50;\nfunction int get@() {\n  return h@;\n}\nfunction int f@(int a, int b) {\n  var int h@ = a;\n  h@ += b;\n  return (h@ + get@());\n}\n",
                  "int h@ = 50;\nint get@(void) { return h@; }\nint f@(int a, int b) { int hl = a; hl = hl + b; return (hl + get@()); }\n", t, [t, t], vec, ["h@"], ["h@"])
    yield cs
    cs = raw_case("X", "scope/param-hides-global", "var int h@ = 50;\nfunction int get@() {\n  return h@;\n}\nfunction int f@(int h@, int b) {\n  h@ = (h@ * 2);\n  return (h@ - get@());\n}\n",
                  "int h@ = 50;\nint get@(void) { return h@; }\nint f@(int hp, int b) { hp = (hp * 2); return (hp - get@()); }\n", t, [t, t], vec, ["h@"], ["h@"])
    yield cs
    # unary plus
    for ut in ("int", "byte", "int64_t"):
        cs = case("X", "unary-plus/%s" % ut, simple(ut, [("a", ut)], [("ret", P("a", ut))]), k=5)
        cs["c3"] = cs["c3"].replace("return a;", "return (+a);")
        yield cs


def fam_E2M(types=SIX, pairs=(("+", "/"), ("*", ">>"), ("-", "<"), ("&", "=="), ("/", "*"), ("%", "+"))):
    """depth 2 with three operand types: ((a op1 b) op2 c), every conversion the coercion table inserts."""
    for t1, t2, t3 in itertools.product(types, repeat=3):
        if t1 == t2 == t3:
            continue
        a, b, c = P("a", t1), P("b", t2), P("c", t3)
        for op1, op2 in pairs:
            inner = mixed_bin(op1, a, b)
            if inner is None:
                continue
            e = mixed_bin(op2, inner, c)
            if e is None:
                continue
            yield case("E2M", "(%s)%s/%s/%s/%s" % (op1, op2, t1, t2, t3), simple(ty(e), [("a", t1), ("b", t2), ("c", t3)], [("ret", e)]), k=4)
            inner = mixed_bin(op1, b, c)
            e = mixed_bin(op2, a, inner) if inner is not None else None
            if e is not None:
                yield case("E2M", "%s(%s)/%s/%s/%s" % (op2, op1, t1, t2, t3), simple(ty(e), [("a", t1), ("b", t2), ("c", t3)], [("ret", e)]), k=4)


def fam_CASTCHAIN(types=INT_NAMES):
    """cast<T3>(cast<T2>(a)): truncation and extension compose."""
    for t1, t2, t3 in itertools.product(types, repeat=3):
        if same_type(t1, t2) or same_type(t2, t3):
            continue
        a = P("a", t1)
        yield case("CASTCHAIN", "%s->%s->%s" % (t1, t2, t3), simple(t3, [("a", t1)], [("ret", CAST(CAST(a, t2), t3))]), k=9)


def all_cases(tier, seed=0):
    thorough = tier != "quick"
    out = []
    out += list(fam_E1())
    out += list(fam_CAST())
    out += list(fam_W())
    out += list(fam_LIT())
    out += list(fam_ASSOC())
    out += list(fam_COND(thorough))
    out += list(fam_S(thorough))
    out += list(fam_A(thorough))
    out += list(fam_X(thorough))
    out += list(fam_CONST(thorough))
    out += list(fam_MOD())
    if thorough:
        out += list(fam_E2(INT_NAMES))
        out += list(fam_E3(["int", "byte", "int8_t", "int16_t", "int64_t", "uint16_t", "uint32_t", "uint64_t"]))
        out += list(fam_E2M(types=["int", "byte", "int8_t", "int16_t", "int64_t", "uint16_t", "uint32_t", "uint64_t"]))
        out += list(fam_E2M(types=["int16_t", "uint32_t", "int8_t", "byte", "int64_t"], pairs=(("+", "*"), ("|", "-"), (">>", "+"), ("*", "<="))))
        out += list(fam_E2F(list(dict.fromkeys(["int", "byte", "int64_t"] + ["int8_t", "uint16_t", "uint64_t", "int16_t", "uint32_t"][seed % 5:][:1]))))
        for ct in ("byte", "int8_t", "int64_t", "uint64_t"):
            out += list(fam_COND(True, ct))
        out += list(fam_CASTCHAIN(INT_NAMES + ["float", "double"]))
    else:
        # complete for three types and one seed-selected root operator, plus every (inner, root) pair once for int
        out += list(fam_E2(["int", "byte", "int8_t"], roots=[BINOPS[seed % 10]]))
        out += list(fam_E2(["int"], roots=[o for o in BINOPS if o != BINOPS[seed % 10]], inner=["+", "/", ">>"]))
        out += list(fam_E2M(types=["int", "byte", "int8_t", "uint16_t"], pairs=(("+", "/"), ("*", ">>"), ("-", "<"))))
        out += list(fam_E3(["int", "byte", "int8_t"][seed % 3:][:1]))
        out += list(fam_CASTCHAIN(types=["int", "byte", "int8_t", "uint16_t", "int64_t"]))
    seen = set()
    uniq = []
    for c in out:
        key = (c["c3"], c["src"])
        if key not in seen:
            seen.add(key)
            uniq.append(c)
    return uniq
