"""Abstract, explicitly typed programs rendered twice: as C3 and as C (DESIGN C37).

One program = a dict {"types": [(struct name, [(field, T)...])], "globals": [(name, T, init | None)], "funcs": [function...]}
with function = {"name", "ret": T, "params": [(name, T)], "body": [stmt...]}.  File-scope names carry the placeholder '@'
(per-case suffix).  The entry point is always `f@`.

Types T:  "int" "byte" "bool" "int8_t" ... "uint64_t" "float" "double" | ("ptr", T) | ("arr", T, n) | ("struct", name)

Expressions (the type is always the last element; operands of an operator have exactly the operator's type):
  ("p", name, T)              variable / parameter / global (an lvalue)
  ("k", value, T)             constant of type T
  ("bin", op, l, r, T)        + - * / % << >> & | ^      in type T
  ("neg", e, T)
  ("cast", e, T)              explicit conversion: C3 cast<T>(e), C ((CT)e)
  ("imp", e, T)               conversion C3 performs implicitly: C3 renders e alone, C renders ((CT)e)
  ("cmp", op, l, r, "bool")   ("and", l, r, "bool")  ("or", l, r, "bool")  ("not", e, "bool")
  ("call", fname, [args], T)
  ("idx", base, i, T)  ("fld", base, field, T)  ("arrow", ptr, field, T)  ("deref", ptr, T)  ("addr", lvalue, ("ptr", T))
Statements:
  ("var", name, T, init | None)   ("set", lvalue, e)   ("aug", op, lvalue, e)   ("if", c, then, else)   ("while", c, body)
  ("for", init stmt, c, final stmt, body)   ("switch", e, [(k, body)...], default body)   ("ret", e | None)   ("do", call expr)

What the C rendering adds so that it means what the C3 text means without leaning on C's integer promotions:
  * arithmetic in a type narrower than int is computed by C in int; the result is converted back to the narrow type: unsigned ->
    modulo (fixed-width wrap-around); signed -> the call is *discarded* when the result does not fit (like signed overflow in int,
    which UBSan discards), through chk helpers that execute a trap (the driver discards a call that raises a signal);
  * shift counts >= the width of the narrow type are discarded the same way (C would see a 32-bit shift);
  * C3's switch has no fall-through (test/samples/simple/switch_statement.c3/.out): every case ends in `break`;
  * bool is an int holding 0/1.

Families (all deterministic lists, simplest first): E1 depth-1 operators per type; CAST / CASTCHAIN conversions; W mixed operand types;
LIT literal operands; ASSOC unparenthesised chains; E2 / E2F / E2M / E3 depth-2 expressions; COND short-circuit conditions; S statement
skeletons; A aggregates; X further statement forms; CONST constant expressions evaluated by the front end; MOD two modules; and the
extension families written as pairs of texts (xcase): GI global initial values, STR string literals, PCAST integer <-> pointer casts, EXT
external functions (with a call trace), REC recursive data types, MODX more module constellations, KUSE constants in use, COERCE implicit
conversion positions.  Extra case fields: "externs" (externals the harness defines on both sides), "expect": "diagnostic" (a program that
is not C3), "ref" (where ppci's documentation / tests use the construct), "locus" (shared key for several forms of one mechanism).
`c_driver` renders the translation unit (cases + table-driven driver) that gcc compiles; `parse_driver_output` reads its output.
"""
import itertools

INTS = {"int": (32, True), "byte": (8, False), "int8_t": (8, True), "int16_t": (16, True), "int32_t": (32, True), "int64_t": (64, True),
        "uint8_t": (8, False), "uint16_t": (16, False), "uint32_t": (32, False), "uint64_t": (64, False)}
INT_NAMES = ["int", "byte", "int8_t", "int16_t", "int32_t", "int64_t", "uint8_t", "uint16_t", "uint32_t", "uint64_t"]
SIX = ["int", "byte", "int8_t", "uint16_t", "int64_t", "uint64_t"]
FLOATS = {"float": (32, 23), "double": (64, 52)}
CNAME = {"int": "int", "byte": "unsigned char", "int8_t": "signed char", "int16_t": "short", "int32_t": "int", "int64_t": "long",
         "uint8_t": "unsigned char", "uint16_t": "unsigned short", "uint32_t": "unsigned", "uint64_t": "unsigned long", "bool": "int",
         "float": "float", "double": "double", "void": "void"}
BINOPS = ["+", "-", "*", "/", "%", "<<", ">>", "&", "|", "^"]
CMPS = ["==", "!=", "<", ">", "<=", ">="]
AUGOPS = ["+", "-", "*", "|", "&"]


def is_int(t):
    return t in INTS


def is_float(t):
    return t in FLOATS


def bits(t):
    return INTS[t][0] if t in INTS else FLOATS[t][0]


def signed(t):
    return INTS[t][1]


def trange(t):
    b, s = INTS[t]
    return (-(1 << (b - 1)), (1 << (b - 1)) - 1) if s else (0, (1 << b) - 1)


def cls(t):
    """width/signedness class used in locus keys (int == int32_t, byte == uint8_t)."""
    if t in INTS:
        return ("s" if signed(t) else "u") + str(bits(t))
    if isinstance(t, tuple):
        return t[0]
    return t


def ty(e):
    return e[-1]


# ------------------------------------------------------------------ C3's documented coercion rules (model used to *generate*)

def implicit_ok(f, t):
    """May C3 convert f to t without a cast?  (typechecker.do_coerce, read as documentation of the language)"""
    if f == t:
        return True
    if is_int(f) and is_int(t):
        if signed(f) == signed(t):
            return bits(f) <= bits(t)
        if not signed(f):
            return bits(f) < bits(t) - 1
        return True  # signed -> unsigned: accepted by the language (test/samples/simple/overflow.c3 relies on int -> byte)
    if is_int(f) and is_float(t):
        return signed(f) or bits(f) < FLOATS[t][1]
    if is_float(f) and is_float(t):
        return True
    return False


def common_type(a, b):
    """context.get_common_type docstring: byte+byte -> byte, byte+int -> int, int+float -> float: the 'largest' class
    (unsigned < signed < float) at the larger width."""
    if a == b:
        return a
    if is_int(a) and is_int(b) and INTS[a] == INTS[b]:
        return a
    prio = lambda t: 3 if is_float(t) else (2 if signed(t) else 1)  # noqa
    c = max(prio(a), prio(b))
    w = max(bits(a), bits(b))
    if c == 3:
        return {32: "float", 64: "double"}.get(w)
    return {(2, 8): "int8_t", (2, 16): "int16_t", (2, 32): "int32_t", (2, 64): "int64_t",
            (1, 8): "uint8_t", (1, 16): "uint16_t", (1, 32): "uint32_t", (1, 64): "uint64_t"}[(c, w)]


def same_type(a, b):
    return a == b or (is_int(a) and is_int(b) and INTS[a] == INTS[b])


# ------------------------------------------------------------------ constructors

def P(name, t):
    return ("p", name, t)


def K(v, t):
    return ("k", v, t)


def B(op, l, r):
    assert same_type(ty(l), ty(r)), (l, r)
    return ("bin", op, l, r, ty(l))


def CMP(op, l, r):
    assert same_type(ty(l), ty(r)), (l, r)
    return ("cmp", op, l, r, "bool")


def CAST(e, t):
    return ("cast", e, t)


def IMP(e, t):
    if ty(e) == t:
        return e
    assert implicit_ok(ty(e), t), (ty(e), t)
    return ("imp", e, t)


def mixed_bin(op, l, r):
    """a op b as C3 types it: both operands implicitly converted to the common type (None when C3 rejects the pair)."""
    ct = common_type(ty(l), ty(r))
    if ct is None or not implicit_ok(ty(l), ct) or not implicit_ok(ty(r), ct):
        return None
    # the documented direction only: an operand is never silently narrowed or re-signed inside an expression
    for x in (l, r):
        if is_int(ty(x)) and is_int(ct) and signed(ty(x)) and not signed(ct):
            return None
    if op in CMPS:
        return ("cmp", op, IMP(l, ct), IMP(r, ct), "bool")
    return ("bin", op, IMP(l, ct), IMP(r, ct), ct)


# ------------------------------------------------------------------ rendering: types

def c3_type(t):
    if isinstance(t, str):
        return t
    if t[0] == "ptr":
        return c3_type(t[1]) + "*"
    if t[0] == "arr":
        return "%s[%d]" % (c3_type(t[1]), t[2])
    if t[0] == "struct":
        return t[1]
    raise ValueError(t)


def c_decl(t, name):
    if isinstance(t, str):
        return "%s %s" % (CNAME[t], name)
    if t[0] == "ptr":
        return c_decl(t[1], "*" + name)
    if t[0] == "arr":
        return c_decl(t[1], "%s[%d]" % (name, t[2]))
    if t[0] == "struct":
        return "%s %s" % (t[1], name)
    raise ValueError(t)


def c_type(t):
    return c_decl(t, "").strip()


# ------------------------------------------------------------------ rendering: expressions

def c3_const(v, t):
    if t == "bool":
        return "true" if v else "false"
    if is_float(t):
        s = "%r" % abs(float(v))
        if "e" in s or "." not in s:
            raise ValueError("float literal %r" % v)
        s = s if v >= 0 else "(-%s)" % s
        return s if t == "double" else "cast<float>(%s)" % s
    if isinstance(t, tuple) and t[0] == "ptr":
        return "cast<%s>(%d)" % (c3_type(t), v)
    assert -(1 << 31) <= v < (1 << 31), "C3 literals are ints"
    if v == -(1 << 31):
        s = "((-2147483647) - 1)"
    else:
        s = str(v) if v >= 0 else "(-%d)" % -v
    if same_type(t, "int"):
        return s
    return "cast<%s>(%s)" % (t, s)


def c3_expr(e):
    k = e[0]
    if k == "p":
        return e[1]
    if k == "k":
        return c3_const(e[1], e[2])
    if k in ("bin", "cmp"):
        return "(%s %s %s)" % (c3_expr(e[2]), e[1], c3_expr(e[3]))
    if k in ("and", "or"):
        return "(%s %s %s)" % (c3_expr(e[1]), k, c3_expr(e[2]))
    if k == "not":
        return "(not %s)" % c3_expr(e[1])
    if k == "neg":
        return "(-%s)" % c3_expr(e[1])
    if k == "cast":
        return "cast<%s>(%s)" % (c3_type(e[2]), c3_expr(e[1]))
    if k == "imp":
        return c3_expr(e[1])
    if k == "call":
        return "%s(%s)" % (e[1], ", ".join(c3_expr(a) for a in e[2]))
    if k == "idx":
        return "%s[%s]" % (c3_expr(e[1]), c3_expr(e[2]))
    if k == "fld":
        return "%s.%s" % (c3_expr(e[1]), e[2])
    if k == "arrow":
        return "%s->%s" % (c3_expr(e[1]), e[2])
    if k == "deref":
        return "(*%s)" % c3_expr(e[1])
    if k == "addr":
        return "(&%s)" % c3_expr(e[1])
    raise ValueError(e)


def narrow(t):
    return is_int(t) and bits(t) < 32


def c_const(v, t):
    if t == "bool":
        return "1" if v else "0"
    if is_float(t):
        return "((%s)%r)" % (CNAME[t], float(v))
    if isinstance(t, tuple):
        return "((%s)%d)" % (c_type(t), v)
    if v < 0:
        return "((%s)(-%dLL-1))" % (CNAME[t], -v - 1)
    return "((%s)%dULL)" % (CNAME[t], v)


def c_fit(t, s):
    """Bring an int-typed C value computed for narrow type t back into t."""
    if signed(t):
        return "chk%d@(%s)" % (bits(t), s)
    return "((%s)(%s))" % (CNAME[t], s)


def c_expr(e):
    k = e[0]
    if k == "p":
        return e[1]
    if k == "k":
        return c_const(e[1], e[2])
    if k == "bin":
        op, l, r, t = e[1], c_expr(e[2]), c_expr(e[3]), e[4]
        if is_float(t):
            return "((%s)(%s %s %s))" % (CNAME[t], l, op, r)
        if narrow(t):
            if op in ("<<", ">>"):
                r = "shc@((unsigned long)(long)%s, %d)" % (r, bits(t))
            if op == "%" and signed(t):
                # the quotient must exist in the narrow type (as INT_MIN % -1 is undefined in int)
                return c_fit(t, "rem@(%s, %s, %d, %d)" % (l, r, trange(t)[0], trange(t)[1]))
            if not signed(t):
                # modular arithmetic: computed in unsigned so that C's promotion to (signed) int cannot overflow (65535 * 65535)
                l = "(unsigned)" + l
                if op not in ("<<", ">>"):
                    r = "(unsigned)" + r
            return c_fit(t, "%s %s %s" % (l, op, r))
        return "(%s %s %s)" % (l, op, r)
    if k == "neg":
        t = e[2]
        if narrow(t):
            return c_fit(t, "-%s%s" % ("" if signed(t) else "(unsigned)", c_expr(e[1])))
        return "(-%s)" % c_expr(e[1])
    if k == "cmp":
        return "(%s %s %s)" % (c_expr(e[2]), e[1], c_expr(e[3]))
    if k == "and":
        return "(%s && %s)" % (c_expr(e[1]), c_expr(e[2]))
    if k == "or":
        return "(%s || %s)" % (c_expr(e[1]), c_expr(e[2]))
    if k == "not":
        return "(!%s)" % c_expr(e[1])
    if k in ("cast", "imp"):
        return "((%s)%s)" % (c_type(e[2]), c_expr(e[1]))
    if k == "call":
        return "%s(%s)" % (e[1], ", ".join(c_expr(a) for a in e[2]))
    if k == "idx":
        return "%s[%s]" % (c_expr(e[1]), c_expr(e[2]))
    if k == "fld":
        return "%s.%s" % (c_expr(e[1]), e[2])
    if k == "arrow":
        return "%s->%s" % (c_expr(e[1]), e[2])
    if k == "deref":
        return "(*%s)" % c_expr(e[1])
    if k == "addr":
        return "(&%s)" % c_expr(e[1])
    raise ValueError(e)


C_HELPERS = ("static int vfU@(void){ __builtin_trap(); return 0; }\n"
             "static signed char chk8@(int v){ if (v < -128 || v > 127) vfU@(); return (signed char)v; }\n"
             "static short chk16@(int v){ if (v < -32768 || v > 32767) vfU@(); return (short)v; }\n"
             "static int shc@(unsigned long n, int w){ if (n >= (unsigned long)w) vfU@(); return (int)(n & 31); }\n"
             "static int rem@(int a, int b, int lo, int hi){ int q = a / b; if (q < lo || q > hi) vfU@(); return a % b; }\n")


# ------------------------------------------------------------------ rendering: statements

def c3_init(t, init):
    if isinstance(init, list):
        return "{%s}" % ", ".join(c3_init(t[1] if t[0] == "arr" else None, x) for x in init)
    if isinstance(init, dict):
        return "{%s}" % ", ".join(".%s=%s" % (f, c3_init(None, x)) for f, x in init.items())
    return c3_expr(init)


def c_init(init):
    if isinstance(init, list):
        return "{%s}" % ", ".join(c_init(x) for x in init)
    if isinstance(init, dict):
        return "{%s}" % ", ".join(".%s=%s" % (f, c_init(x)) for f, x in init.items())
    return c_expr(init)


def c3_simple(s):
    """A statement without its terminating ';' (for-loop headers use these too)."""
    k = s[0]
    if k == "set":
        return "%s = %s" % (c3_expr(s[1]), c3_expr(s[2]))
    if k == "aug":
        return "%s %s= %s" % (c3_expr(s[2]), s[1], c3_expr(s[3]))
    if k == "do":
        return c3_expr(s[1])
    raise ValueError(s)


def c_simple(s):
    k = s[0]
    if k == "set":
        return "%s = %s" % (c_expr(s[1]), c_expr(s[2]))
    if k == "aug":
        lv = s[2]
        if not narrow(ty(lv)):
            # operands already have the (>= int wide) type of the lvalue: C's own compound assignment, lvalue evaluated once
            return "%s %s= %s" % (c_expr(lv), s[1], c_expr(s[3]))
        return "%s = %s" % (c_expr(lv), c_expr(("bin", s[1], lv, s[3], ty(lv))))
    if k == "do":
        return c_expr(s[1])
    raise ValueError(s)


def c3_block(body, ind):
    pad = "  " * ind
    out = []
    for s in body:
        k = s[0]
        if k == "var":
            out.append("%svar %s %s%s;" % (pad, c3_type(s[2]), s[1], "" if s[3] is None else " = " + c3_init(s[2], s[3])))
        elif k in ("set", "aug", "do"):
            out.append(pad + c3_simple(s) + ";")
        elif k == "if":
            out.append("%sif (%s) {" % (pad, c3_expr(s[1])))
            out += c3_block(s[2], ind + 1)
            if s[3]:
                out.append(pad + "} else {")
                out += c3_block(s[3], ind + 1)
            out.append(pad + "}")
        elif k == "while":
            out.append("%swhile (%s) {" % (pad, c3_expr(s[1])))
            out += c3_block(s[2], ind + 1)
            out.append(pad + "}")
        elif k == "for":
            out.append("%sfor (%s; %s; %s) {" % (pad, c3_simple(s[1]), c3_expr(s[2]), c3_simple(s[3])))
            out += c3_block(s[4], ind + 1)
            out.append(pad + "}")
        elif k == "switch":
            out.append("%sswitch (%s) {" % (pad, c3_expr(s[1])))
            for kv, b in s[2]:
                out.append("%s  case %d: {" % (pad, kv))
                out += c3_block(b, ind + 2)
                out.append(pad + "  }")
            out.append(pad + "  default: {")
            out += c3_block(s[3], ind + 2)
            out.append(pad + "  }")
            out.append(pad + "}")
        elif k == "ret":
            out.append(pad + ("return;" if s[1] is None else "return %s;" % c3_expr(s[1])))
        else:
            raise ValueError(s)
    return out


def c_block(body, ind):
    pad = "  " * ind
    out = []
    for s in body:
        k = s[0]
        if k == "var":
            out.append("%s%s%s;" % (pad, c_decl(s[2], s[1]), "" if s[3] is None else " = " + c_init(s[3])))
        elif k in ("set", "aug", "do"):
            out.append(pad + c_simple(s) + ";")
        elif k == "if":
            out.append("%sif (%s) {" % (pad, c_expr(s[1])))
            out += c_block(s[2], ind + 1)
            if s[3]:
                out.append(pad + "} else {")
                out += c_block(s[3], ind + 1)
            out.append(pad + "}")
        elif k == "while":
            out.append("%swhile (%s) {" % (pad, c_expr(s[1])))
            out += c_block(s[2], ind + 1)
            out.append(pad + "}")
        elif k == "for":
            out.append("%sfor (%s; %s; %s) {" % (pad, c_simple(s[1]), c_expr(s[2]), c_simple(s[3])))
            out += c_block(s[4], ind + 1)
            out.append(pad + "}")
        elif k == "switch":
            out.append("%sswitch (%s) {" % (pad, c_expr(s[1])))
            for kv, b in s[2]:
                out.append("%s  case %d: {" % (pad, kv))
                out += c_block(b, ind + 2)
                out.append(pad + "  } break;")
            out.append(pad + "  default: {")
            out += c_block(s[3], ind + 2)
            out.append(pad + "  } break;")
            out.append(pad + "}")
        elif k == "ret":
            out.append(pad + ("return;" if s[1] is None else "return %s;" % c_expr(s[1])))
        else:
            raise ValueError(s)
    return out


def hoist_vars(body):
    """C3 has one scope per function; C is block scoped.  The generators declare variables at function level only, checked here."""
    for s in body:
        if s[0] in ("if",):
            for b in (s[2], s[3]):
                assert not any(x[0] == "var" for x in b)
                hoist_vars(b)
        elif s[0] == "while":
            assert not any(x[0] == "var" for x in s[2])
        elif s[0] == "for":
            assert not any(x[0] == "var" for x in s[4])


def render_c3(prog):
    out = []
    for name, fields in prog.get("types", []):
        out.append("type struct { %s } %s;" % (" ".join("%s %s;" % (c3_type(t), f) for f, t in fields), name))
    for name, t, init in prog.get("globals", []):
        out.append("var %s %s%s;" % (c3_type(t), name, "" if init is None else " = " + c3_init(t, init)))
    for f in prog["funcs"]:
        hoist_vars(f["body"])
        out.append("function %s %s(%s) {" % (c3_type(f["ret"]), f["name"], ", ".join("%s %s" % (c3_type(t), n) for n, t in f["params"])))
        out += c3_block(f["body"], 1)
        out.append("}")
    return "\n".join(out) + "\n"


def render_c(prog):
    out = [C_HELPERS]
    for name, fields in prog.get("types", []):
        out.append("typedef struct { %s } %s;" % (" ".join("%s;" % c_decl(t, f) for f, t in fields), name))
    for name, t, init in prog.get("globals", []):
        out.append("%s%s;" % (c_decl(t, name), "" if init is None else " = " + c_init(init)))
    for f in prog["funcs"]:
        out.append("%s;" % c_decl(f["ret"], "%s(%s)" % (f["name"], ", ".join(c_decl(t, n) for n, t in f["params"]) or "void")))
    for f in prog["funcs"]:
        out.append("%s {" % c_decl(f["ret"], "%s(%s)" % (f["name"], ", ".join(c_decl(t, n) for n, t in f["params"]) or "void")))
        out += c_block(f["body"], 1)
        out.append("}")
    return "\n".join(out) + "\n"


# ------------------------------------------------------------------ argument vectors

def V(t, k=7):
    if t == "bool":
        return [0, 1]
    if is_float(t):
        return [0.0, 1.0, -1.0, 0.5, -2.5, 3.0, 100.0][:k]
    lo, hi = trange(t)
    if signed(t):
        vs = [0, 1, -1, hi, 2, lo, -7, 3, 100]
    else:
        vs = [0, 1, 2, hi, 7, hi - 1, 3, 100, hi >> 1]
    out = []
    for v in vs:
        if v not in out and lo <= v <= hi:
            out.append(v)
    return out[:k]


SMALL = [-7, -2, -1, 0, 1, 2, 3, 7]


def vectors(params, k=7, cap=64):
    cols = [V(t, k) for t in params]
    vs = [list(v) for v in itertools.product(*cols)]
    vs.sort(key=lambda v: (sum(abs(x) for x in v), v))
    return vs[:cap] if len(vs) <= cap else [vs[int(i * len(vs) / cap)] for i in range(cap)]


def small_vectors(params):
    cols = []
    for t in params:
        lo, hi = trange(t) if is_int(t) else (0, 1)
        cols.append([v for v in SMALL if lo <= v <= hi] if is_int(t) else [0, 1])
    vs = [list(v) for v in itertools.product(*cols)]
    vs.sort(key=lambda v: (sum(abs(x) for x in v), v))
    return vs


def case(fam, feat, prog, vecs=None, k=7, cap=64):
    f = [x for x in prog["funcs"] if x["name"] == "f@"][0]
    ptypes = [t for _, t in f["params"]]
    scalars = [n for n, t, _ in prog.get("globals", []) if isinstance(t, str) or (t[0] == "arr" and isinstance(t[1], str))]
    return {"fam": fam, "feat": feat, "c3": render_c3(prog), "src": render_c(prog), "fname": "f@", "ret": CNAME[f["ret"]],
            "params": [CNAME[t] for t in ptypes], "c3params": ptypes, "c3ret": f["ret"],
            "vectors": vecs if vecs is not None else vectors(ptypes, k, cap), "globals": [n for n, _, _ in prog.get("globals", [])],
            "cmp_globals": scalars}


# ------------------------------------------------------------------ the C driver (one translation unit for a batch of cases)

DRIVER_PRELUDE = r"""
#include <stdio.h>
#include <string.h>
#include <signal.h>
#include <setjmp.h>
static sigjmp_buf vf_jb;
static void vf_sig(int s){ (void)s; siglongjmp(vf_jb, 1); }
static void vf_hex(const void *p, unsigned n){ const unsigned char *c = p; for (unsigned i = 0; i < n; i++) printf("%02x", c[i]); }
"""

GCC_FLAGS = ["-O0", "-w", "-std=gnu11", "-fsanitize=undefined,float-cast-overflow,float-divide-by-zero", "-fsanitize-undefined-trap-on-error",
             "-ffp-contract=off"]


def c_literal(ct, v):
    if ct in ("float", "double"):
        return "((%s)%r)" % (ct, float(v))
    if v < 0:
        return "((%s)(-%dLL-1))" % (ct, -v - 1)
    return "((%s)%dULL)" % (ct, v)


def c_driver(cases, idxs):
    """Table driven: per case one argument table and one loop with a single sigsetjmp.  Every undefined operation executes a trap
    (-fsanitize-undefined-trap-on-error: UBSan's reporting runtime would mention each source location only once per process) and is
    printed as an X line.  Lines:  R <case> <vector> <value> [<global>=<hex>...]   |   X <case> <vector>."""
    parts = [DRIVER_PRELUDE]
    main = ["int main(void){", "  signal(SIGFPE, vf_sig); signal(SIGILL, vf_sig); signal(SIGSEGV, vf_sig); signal(SIGBUS, vf_sig); signal(SIGTRAP, vf_sig);"]
    for k in idxs:
        c = cases[k]
        suf = "_%d" % k
        parts.append(c["src"].replace("@", suf))
        np_ = len(c["params"])
        flds = " ".join("%s p%d;" % (t, i) for i, t in enumerate(c["params"]))
        rows = ", ".join("{%s}" % ", ".join(c_literal(t, v) for t, v in zip(c["params"], vec)) for vec in c["vectors"])
        parts.append("static const struct { %s } vf_args%s[] = { %s };" % (flds, suf, rows))
        gl = [g.replace("@", suf) for g in c["globals"]]
        save = "".join(" static unsigned char sh_%s[sizeof(%s)]; memcpy(sh_%s, &%s, sizeof(%s));" % (g, g, g, g, g) for g in gl)
        restore = "".join(" memcpy(&%s, sh_%s, sizeof(%s));" % (g, g, g) for g in gl)
        dump = "".join(' printf(" %s="); vf_hex(&%s, sizeof(%s));' % (g, g, g) for g in gl)
        args = ", ".join("vf_args%s[vi].p%d" % (suf, i) for i in range(np_))
        ret = c["ret"]
        fname = c["fname"].replace("@", suf)
        if ret in ("float", "double"):
            call = "double r = (double)%s(%s); unsigned long long b; memcpy(&b, &r, 8); printf(\"R %d %%d F%%llx\", vi, b);" % (fname, args, k)
        elif ret.startswith("unsigned"):
            call = "unsigned long long r = (unsigned long long)%s(%s); printf(\"R %d %%d %%llu\", vi, r);" % (fname, args, k)
        else:
            call = "long long r = (long long)%s(%s); printf(\"R %d %%d %%lld\", vi, r);" % (fname, args, k)
        parts.append("static void vf_run%s(void){%s\n  for (volatile int vi = 0; vi < %d; vi++) {%s\n    if (!sigsetjmp(vf_jb, 1)) { %s%s printf(\"\\n\"); }"
                     " else printf(\"X %d %%d\\n\", vi);\n  }\n}" % (suf, save, len(c["vectors"]), restore, call, dump, k))
        main.append("  vf_run%s();" % suf)
    main.append("  fflush(stdout); return 0; }")
    return "\n".join(parts) + "\n" + "\n".join(main) + "\n"


def parse_driver_output(text):
    """-> {case: {vector: ('ok', value, {global: hex}) | ('ub', 'signal')}}"""
    import struct
    res = {}
    for line in text.splitlines():
        t = line.split()
        if len(t) < 3 or t[0] not in ("R", "X"):
            continue
        k, vi = int(t[1]), int(t[2])
        if t[0] == "X":
            res.setdefault(k, {})[vi] = ("ub", "signal")
            continue
        val = t[3]
        if val.startswith("F"):
            ret = struct.unpack("<d", struct.pack("<Q", int(val[1:], 16)))[0]
        else:
            ret = int(val)
        mem = {}
        for x in t[4:]:
            name, _, hx = x.partition("=")
            mem[name] = hx
        res.setdefault(k, {})[vi] = ("ok", ret, mem)
    return res


def fn(ret, params, body, name="f@"):
    return {"name": name, "ret": ret, "params": params, "body": body}


def simple(ret, params, body):
    return {"funcs": [fn(ret, params, body)]}


# ------------------------------------------------------------------ families

def fam_E1(types=INT_NAMES):
    """depth 1: every operator of the language in every integer type; comparisons; unary minus; shorthand assignment."""
    for t in types:
        a, b = P("a", t), P("b", t)
        for op in BINOPS:
            yield case("E1", "bin/%s/%s" % (op, t), simple(t, [("a", t), ("b", t)], [("ret", B(op, a, b))]))
        for op in CMPS:
            yield case("E1", "cmp/%s/%s" % (op, t), simple("bool", [("a", t), ("b", t)], [("ret", CMP(op, a, b))]))
        yield case("E1", "neg/-/%s" % t, simple(t, [("a", t)], [("ret", ("neg", a, t))]), k=9)
        for op in AUGOPS:
            x = P("x", t)
            yield case("E1", "aug/%s=/%s" % (op, t), simple(t, [("a", t), ("b", t)], [("var", "x", t, a), ("aug", op, x, b), ("ret", x)]))
            yield case("E1", "aug-param/%s=/%s" % (op, t), simple(t, [("a", t), ("b", t)], [("aug", op, a, b), ("ret", a)]))
    for t in ("double", "float"):
        a, b = P("a", t), P("b", t)
        for op in ("+", "-", "*", "/"):
            yield case("E1", "bin/%s/%s" % (op, t), simple(t, [("a", t), ("b", t)], [("ret", B(op, a, b))]))
        for op in CMPS:
            yield case("E1", "cmp/%s/%s" % (op, t), simple("bool", [("a", t), ("b", t)], [("ret", CMP(op, a, b))]))
        yield case("E1", "neg/-/%s" % t, simple(t, [("a", t)], [("ret", ("neg", a, t))]))
    a, b = P("a", "bool"), P("b", "bool")
    yield case("E1", "logic/and/bool", simple("bool", [("a", "bool"), ("b", "bool")], [("ret", ("and", a, b, "bool"))]))
    yield case("E1", "logic/or/bool", simple("bool", [("a", "bool"), ("b", "bool")], [("ret", ("or", a, b, "bool"))]))
    yield case("E1", "logic/not/bool", simple("bool", [("a", "bool")], [("ret", ("not", a, "bool"))]))
    # constants of every type (C3 literals are ints; other types by cast)
    for t in types:
        lo, hi = trange(t)
        for v in sorted({0, 1, 5, max(lo, -(1 << 31)), min(hi, (1 << 31) - 1), max(lo, -3)}):
            a = P("a", t)
            yield case("E1", "const/%s" % t, simple(t, [("a", t)], [("ret", B("+", a, K(v, t)))]), k=5)


def fam_CAST(types=INT_NAMES + ["float", "double"]):
    """every explicit cast pair, and every conversion C3 performs implicitly at return / assignment / argument position."""
    for t1 in types:
        for t2 in types:
            a = P("a", t1)
            yield case("CAST", "cast/%s->%s" % (t1, t2), simple(t2, [("a", t1)], [("ret", CAST(a, t2))]), k=9)
            if t1 != t2 and implicit_ok(t1, t2):
                yield case("CAST", "implicit-return/%s->%s" % (t1, t2), simple(t2, [("a", t1)], [("ret", IMP(a, t2))]), k=9)
                yield case("CAST", "implicit-assign/%s->%s" % (t1, t2),
                           simple(t2, [("a", t1)], [("var", "x", t2, K(0, t2)), ("set", P("x", t2), IMP(a, t2)), ("ret", P("x", t2))]), k=9)
                idf = fn(t2, [("v", t2)], [("ret", P("v", t2))], name="id@")
                yield case("CAST", "implicit-argument/%s->%s" % (t1, t2),
                           {"funcs": [idf, fn(t2, [("a", t1)], [("ret", ("call", "id@", [IMP(a, t2)], t2))])]}, k=9)


def fam_W(types=INT_NAMES, ops=("+", "-", "*", "/", "%", "&", "|", "^", ">>", "<", "==", ">=")):
    """mixed operand types: the coercion table (byte+byte -> byte, byte+int -> int, uint8+int16 -> int16, ...)."""
    for t1 in types:
        for t2 in types:
            if same_type(t1, t2):
                continue
            a, b = P("a", t1), P("b", t2)
            for op in ops:
                e = mixed_bin(op, a, b)
                if e is None:
                    continue
                yield case("W", "mixed/%s/%s/%s" % (op, t1, t2), simple(ty(e), [("a", t1), ("b", t2)], [("ret", e)]))
    for t in ("float", "double"):
        for ti in ("int", "byte", "int8_t", "int64_t", "uint16_t"):
            a, b = P("a", ti), P("b", t)
            for op in ("+", "*", "<"):
                e = mixed_bin(op, a, b)
                if e is not None:
                    yield case("W", "mixed/%s/%s/%s" % (op, ti, t), simple(ty(e), [("a", ti), ("b", t)], [("ret", e)]))
    # the width of the intermediate result must be the common type's: (byte + byte) / byte, widened only afterwards
    for t, wide in (("byte", "int"), ("uint8_t", "uint32_t"), ("int8_t", "int"), ("uint16_t", "int64_t"), ("int16_t", "int")):
        a, b = P("a", t), P("b", t)
        for op1, op2 in (("+", "/"), ("*", ">>"), ("-", "/"), ("+", "<"), ("*", "%"), ("<<", ">>")):
            inner = B(op1, a, b)
            c = P("c", t)
            e = CMP(op2, inner, c) if op2 in CMPS else B(op2, inner, c)
            if op2 in CMPS:
                yield case("W", "narrow-intermediate/%s%s/%s" % (op1, op2, t), simple("bool", [("a", t), ("b", t), ("c", t)], [("ret", e)]), k=4)
            else:
                yield case("W", "narrow-intermediate/%s%s/%s" % (op1, op2, t), simple(wide, [("a", t), ("b", t), ("c", t)], [("ret", IMP(e, wide))]), k=4)
        # result of a narrow operation used in a wider operation
        w = P("w", wide)
        e = mixed_bin("+", B("+", a, b), w)
        if e is not None:
            yield case("W", "narrow-then-wide/%s" % t, simple(ty(e), [("a", t), ("b", t), ("w", wide)], [("ret", e)]), k=4)


def fam_LIT(types=INT_NAMES):
    """a op <literal>: an integer literal has type int and takes part in the coercion table like any int operand."""
    for t in types:
        a = P("a", t)
        for op in ("+", "-", "*", "/", "%", "&", "|", "^", ">>", "<<", "<", "==", ">="):
            for v in (1, 3, 200):
                for swap in (False, True):
                    e = mixed_bin(op, K(v, "int"), a) if swap else mixed_bin(op, a, K(v, "int"))
                    if e is None:
                        continue
                    yield case("LIT", "literal-%s/%s/%s" % ("left" if swap else "right", op, t), simple(ty(e), [("a", t)], [("ret", e)]), k=9)
        # assignment of a literal / an int expression to a narrower variable converts modulo (test/samples/simple/overflow.c3)
        x = P("x", t)
        for v in (22, 233, 70000):
            e = mixed_bin("+", x, K(v, "int"))
            if e is None or not implicit_ok(ty(e), t):
                continue
            yield case("LIT", "assign-literal-sum/%s" % t, simple(t, [("a", t)], [("var", "x", t, a), ("set", x, IMP(e, t) if ty(e) != t else e), ("ret", x)]), k=9)


def fam_E2(types, roots=BINOPS, inner=BINOPS):
    """depth 2: ((a op1 b) op2 c) and (a op2 (b op1 c))."""
    for t in types:
        a, b, c = P("a", t), P("b", t), P("c", t)
        ps = [("a", t), ("b", t), ("c", t)]
        for op2 in roots:
            for op1 in inner:
                yield case("E2", "(%s)%s/%s" % (op1, op2, t), simple(t, ps, [("ret", B(op2, B(op1, a, b), c))]), k=4)
                yield case("E2", "%s(%s)/%s" % (op2, op1, t), simple(t, ps, [("ret", B(op2, a, B(op1, b, c)))]), k=4)


def fam_E2F(types, ops=BINOPS):
    """depth 2, full tree: ((a op1 b) op2 (c op3 a))."""
    for t in types:
        a, b, c = P("a", t), P("b", t), P("c", t)
        ps = [("a", t), ("b", t), ("c", t)]
        for op2 in ops:
            for op1 in ops:
                for op3 in ops:
                    yield case("E2F", "(%s)%s(%s)/%s" % (op1, op2, op3, t), simple(t, ps, [("ret", B(op2, B(op1, a, b), B(op3, c, a)))]), k=4)


def fam_E3(types):
    """depth 2 ending in a comparison or starting with a unary operator / cast: ((a op b) cmp c), (-(a op b)), cast<T2>(a op b) op2 c."""
    for t in types:
        a, b, c = P("a", t), P("b", t), P("c", t)
        ps = [("a", t), ("b", t), ("c", t)]
        for op in BINOPS:
            for cm in CMPS:
                yield case("E3", "(%s)%s/%s" % (op, cm, t), simple("bool", ps, [("ret", CMP(cm, B(op, a, b), c))]), k=4)
            yield case("E3", "neg(%s)/%s" % (op, t), simple(t, ps[:2], [("ret", ("neg", B(op, a, b), t))]))
            yield case("E3", "(%s)-neg/%s" % (op, t), simple(t, ps[:2], [("ret", B(op, a, ("neg", b, t)))]))
            for t2 in ("int", "byte", "int64_t", "uint16_t"):
                if same_type(t, t2):
                    continue
                d = P("d", t2)
                yield case("E3", "cast(%s)+/%s/%s" % (op, t, t2), simple(t2, [("a", t), ("b", t), ("d", t2)], [("ret", B("+", CAST(B(op, a, b), t2), d))]), k=4)


def fam_ASSOC(types=("int", "byte", "int64_t")):
    """unparenthesised chains of equal-precedence operators associate to the left (test/samples/simple/associativity_of_arithmatic.c3);
    * / % bind tighter than + - as in C."""
    for t in types:
        ps = [("a", t), ("b", t), ("c", t)]
        for c3txt, ctxt, feat in (("a - b - c", None, "left/-"), ("a / b / c", None, "left//"), ("a - b + c", None, "left/-+"),
                                  ("a / b * c", None, "left//*"), ("a % b % c", None, "left/%"), ("a + b * c", None, "prec/+*"),
                                  ("a * b + c", None, "prec/*+"), ("a - b / c", None, "prec/-/"), ("a << b << c", None, "left/<<")):
            a, b, c = P("a", t), P("b", t), P("c", t)
            o = c3txt.split()
            if feat.startswith("left"):
                e = B(o[3], B(o[1], a, b), c)
            elif o[3] in ("*", "/"):
                e = B(o[1], a, B(o[3], b, c))
            else:
                e = B(o[3], B(o[1], a, b), c)
            cs = case("ASSOC", "%s/%s" % (feat, t), simple(t, ps, [("ret", e)]), k=4)
            # the C3 text is written without parentheses; the C text keeps the explicit tree
            cs["c3"] = "function %s f@(%s a, %s b, %s c) {\n  return %s;\n}\n" % (t, t, t, t, c3txt)
            yield cs


def cond_atoms(t="int"):
    a, b, c = P("a", t), P("b", t), P("c", t)
    return [CMP("<", a, b), CMP("==", b, c), CMP(">=", a, c), CMP("!=", a, K(1, t))]


def fam_COND(thorough, t="int"):
    """short-circuit conditions of depth <= 2, as a value and as a branch condition, with a side-effecting right operand."""
    ps = [("a", t), ("b", t), ("c", t)]
    at = cond_atoms(t)
    shapes = []
    for c1, c2 in itertools.product(at, repeat=2):
        if c1 == c2:
            continue
        shapes += [("and", c1, c2, "bool"), ("or", c1, c2, "bool"), ("and", ("not", c1, "bool"), c2, "bool"), ("not", ("or", c1, c2, "bool"), "bool"),
                   ("cmp", "==", c1, c2, "bool"), ("cmp", "!=", c1, ("not", c2, "bool"), "bool")]
    if thorough:
        for c1, c2, c3 in itertools.product(at, repeat=3):
            if c1 == c2 or c2 == c3 or c1 == c3:
                continue
            shapes += [("or", ("and", c1, c2, "bool"), c3, "bool"), ("and", c1, ("or", c2, c3, "bool"), "bool"),
                       ("or", c1, ("and", c2, c3, "bool"), "bool"), ("and", ("or", c1, c2, "bool"), c3, "bool")]
    lo, hi = trange(t)
    for i, s in enumerate(shapes):
        feat = "shape/" + shape_name(s) + ("" if t == "int" else "/" + t)
        vec = [v for v in small3() if all(lo <= x <= hi for x in v)] if lo < 0 else [[x % 4 for x in v] for v in small3() if min(v) >= 0] + [[hi, 1, hi], [hi, hi, 0], [0, hi, 1]]
        yield case("COND", feat + "/value", simple("bool", ps, [("ret", s)]), vecs=vec)
        yield case("COND", feat + "/if", simple(t, ps, [("if", s, [("ret", K(1, t))], []), ("ret", K(0, t))]), vecs=vec)
        if i % 4 == 0:
            yield case("COND", feat + "/boolvar", simple(t, ps, [("var", "t", "bool", s), ("if", P("t", "bool"), [("ret", P("a", t))], [("ret", P("b", t))])]), vecs=vec)
            yield case("COND", feat + "/while", simple(t, ps, [("var", "x", t, K(0, t)), ("while", ("and", s, CMP("<", P("x", t), K(3, t)), "bool"),
                                                                                         [("aug", "+", P("x", t), K(1, t))]), ("ret", P("x", t))]), vecs=vec)
    if t != "int":
        return
    # side effects on the right of and/or must happen only when the left does not decide
    g = P("g@", t)
    ext = fn("bool", [("v", t)], [("set", g, B("+", B("*", g, K(3, t)), P("v", t))), ("ret", CMP(">", P("v", t), K(0, t)))], name="ext@")
    a, b = P("a", t), P("b", t)
    for op in ("and", "or"):
        for left in (CMP("<", a, b), CMP("==", a, K(0, t)), ("not", CMP("<", a, b), "bool")):
            calls = ("call", "ext@", [b], "bool")
            cond = (op, left, calls, "bool")
            prog = {"globals": [("g@", t, K(1, t))], "funcs": [ext, fn(t, [("a", t), ("b", t)], [("if", cond, [("aug", "+", g, K(100, t))], []), ("ret", g)])]}
            yield case("COND", "side-effect/%s/right" % op, prog, vecs=small_vectors([t, t]))
            cond = (op, ("call", "ext@", [a], "bool"), (op, left, calls, "bool"), "bool")
            prog = {"globals": [("g@", t, K(1, t))], "funcs": [ext, fn(t, [("a", t), ("b", t)], [("var", "r", "bool", cond), ("if", P("r", "bool"), [("aug", "+", g, K(100, t))], []), ("ret", g)])]}
            yield case("COND", "side-effect/%s/chain" % op, prog, vecs=small_vectors([t, t]))


def shape_name(s):
    if s[0] == "cmp" and ty(s[2]) == "bool":
        return "%s(%s,%s)" % ({"==": "eq", "!=": "ne"}[s[1]], shape_name(s[2]), shape_name(s[3]))
    if s[0] in ("and", "or"):
        return "%s(%s,%s)" % (s[0], shape_name(s[1]), shape_name(s[2]))
    if s[0] == "not":
        return "not(%s)" % shape_name(s[1])
    return "c"


def small3():
    vs = [list(v) for v in itertools.product([-1, 0, 1, 2], repeat=3)]
    vs.sort(key=lambda v: (sum(abs(x) for x in v), v))
    return vs


# ---- statements

def fam_S(thorough):
    """statement skeletons of nesting depth <= 2 over {if, if/else, while, for, switch, return inside} with bodies from a menu over two
    locals, one global and a call; loops are bounded by construction (trip counts a & 7, b & 3)."""
    t = "int"
    a, b, x, y, g, i, j = P("a", t), P("b", t), P("x", t), P("y", t), P("g@", t), P("i", t), P("j", t)
    ps = [("a", t), ("b", t)]
    ext = fn(t, [("v", t)], [("set", g, B("+", g, P("v", t))), ("ret", B("+", B("*", P("v", t), K(3, t)), K(1, t)))], name="ext@")
    menu = [("aug", "+", x, a), ("set", x, B("-", B("*", x, K(2, t)), b)), ("set", g, B("+", g, x)), ("set", x, ("call", "ext@", [x], t))]
    if thorough:
        menu += [("aug", "-", y, K(1, t)), ("set", y, B("^", y, x))]
    conds = [CMP("<", a, b), CMP(">", x, K(3, t))]
    if thorough:
        conds += [("and", CMP("<", a, b), CMP("<", b, K(3, t)), "bool"), ("or", CMP("==", a, K(0, t)), CMP("<", x, b), "bool"),
                  ("not", CMP("==", B("&", a, K(1, t)), K(0, t)), "bool")]
    alt = ("aug", "-", x, b)
    na, nb = B("&", a, K(7, t)), B("&", b, K(3, t))

    def heads(v, bound):
        hs = [("while", lambda body: [("set", v, K(0, t)), ("while", CMP("<", v, bound), body + [("aug", "+", v, K(1, t))])]),
              ("for", lambda body: [("for", ("set", v, K(0, t)), CMP("<", v, bound), ("aug", "+", v, K(1, t)), body)])]
        if thorough:
            hs.append(("for-down", lambda body: [("for", ("set", v, bound), CMP(">", v, K(0, t)), ("set", v, B("-", v, K(1, t))), body)]))
            hs.append(("while-cond2", lambda body: [("set", v, K(0, t)), ("while", ("and", CMP("<", v, bound), CMP("<", x, K(50, t)), "bool"),
                                                                          body + [("aug", "+", v, K(1, t))])]))
        return hs

    def switch(e, bodies, default):
        return ("switch", e, [(0, bodies[0]), (1, bodies[1]), (5, bodies[2])], default)

    def wrap(stmts):
        # only what the statements use is declared, so that witnesses stay small
        txt = repr(stmts)
        use = {n: ("'%s'" % n) in txt for n in ("y", "i", "j", "g@", "ext@")}
        body = [("var", "x", t, K(0, t))]
        body += [("var", n, t, K(1 if n == "y" else 0, t)) for n in ("y", "i", "j") if use[n]]
        body += stmts
        obs = x
        if use["y"] or use["g@"] or use["ext@"]:
            rest = B("^", y, g) if use["y"] and (use["g@"] or use["ext@"]) else (y if use["y"] else g)
            obs = B("+", B("*", x, K(16, t)), rest)
        body.append(("ret", obs))
        prog = {"funcs": ([ext] if use["ext@"] else []) + [fn(t, ps, body)]}
        if use["g@"] or use["ext@"]:
            prog["globals"] = [("g@", t, K(2, t))]
        return prog

    vec = small_vectors([t, t])

    def emit(feat, stmts):
        return case("S", feat, wrap(stmts), vecs=vec)

    # depth 1
    for c in conds:
        for s in menu:
            yield emit("if", [("if", c, [s], [])])
            yield emit("if-else", [("if", c, [s], [alt])])
            yield emit("if-return", [("if", c, [s, ("ret", x)], []), alt])
    for tag, mk in heads(i, na):
        for s in menu:
            yield emit(tag, mk([s]))
            yield emit(tag + "+i", mk([s, ("aug", "+", x, i)]))
    for s in menu:
        for sel in (a, B("&", a, K(7, t)), B("+", a, b)):
            yield emit("switch", [switch(sel, [[s], [alt], [s, alt]], [("set", x, K(9, t))])])
    yield emit("switch-empty-default", [switch(a, [[menu[0]], [alt], [menu[1]]], [])])
    yield emit("switch-return", [switch(a, [[("ret", K(10, t))], [menu[0]], [("ret", b)]], [("set", x, K(9, t))])])

    # depth 2: loop containing a compound
    for tag, mk in heads(i, na):
        inner = []
        for c in conds + [CMP("==", i, K(1, t)), CMP("<", i, b)]:
            for s in menu[:5 if thorough else 2]:
                inner.append(("if", [("if", c, [s], [])]))
                inner.append(("if-else", [("if", c, [s], [alt])]))
            inner.append(("if-return", [("if", c, [("ret", B("+", x, i))], [])]))
        for tag2, mk2 in heads(j, nb):
            for s in menu[:4 if thorough else 2]:
                inner.append((tag2, mk2([s])))
                inner.append((tag2 + "+ij", mk2([("aug", "+", x, B("*", i, j))])))
        for s in menu[:2]:
            inner.append(("switch", [switch(i, [[s], [alt], [("aug", "+", x, i)]], [("aug", "+", x, K(1, t))])]))
        for tag2, st in inner:
            yield emit("%s/%s" % (tag, tag2), mk(st))
            if thorough:
                yield emit("%s/%s" % (tag, tag2), mk([menu[0]] + st))
                yield emit("%s/%s" % (tag, tag2), mk(st + [menu[0]]))
    # depth 2: if / switch containing a compound
    for c in conds[:3]:
        for tag, mk in heads(i, na):
            for s in menu[:2]:
                yield emit("if/%s" % tag, [("if", c, mk([s]), [])])
                yield emit("if-else/%s" % tag, [("if", c, [alt], mk([s]))])
        for c2 in conds:
            for s in menu[:2]:
                yield emit("if/if", [("if", c, [("if", c2, [s], [])], [alt])])
                yield emit("if-else/if-else", [("if", c, [s], [("if", c2, [alt], [menu[1]])])])
        yield emit("if/switch", [("if", c, [switch(b, [[menu[0]], [alt], [menu[1]]], [("set", x, K(9, t))])], [alt])])
    for tag, mk in heads(i, na):
        yield emit("switch/%s" % tag, [switch(b, [mk([menu[0]]), [alt], mk([menu[1]])], mk([("aug", "+", x, i)]))])
    yield emit("switch/if", [switch(a, [[("if", conds[0], [menu[0]], [alt])], [alt], [("if", conds[1], [menu[1]], [])]], [("set", x, K(9, t))])])
    yield emit("switch/switch", [switch(a, [[switch(b, [[menu[0]], [alt], [menu[1]]], [("set", x, K(7, t))])], [alt], [menu[1]]], [("set", x, K(9, t))])])

    # loops over other counter types (wrap-around of the counter is part of fixed-width semantics only for unsigned)
    for ct in ("byte", "uint16_t", "int8_t", "int64_t", "uint64_t"):
        n = P("n", ct)
        body = [("var", "x", t, K(0, t)), ("var", "n", ct, K(0, ct)),
                ("for", ("set", n, K(0, ct)), CMP("<", n, CAST(B("&", a, K(7, t)), ct)), ("aug", "+", n, K(1, ct)), [("aug", "+", x, B("+", b, CAST(n, t)))]),
                ("ret", x)]
        yield case("S", "for/counter-%s" % ct, simple(t, ps, body), vecs=vec)
    # recursion and calls
    rec = fn(t, ps, [("if", CMP("<=", a, K(0, t)), [("ret", b)], []), ("ret", ("call", "f@", [B("-", a, K(1, t)), B("+", b, a)], t))])
    yield case("S", "call/recursion", {"funcs": [rec]}, vecs=vec)
    sub = fn(t, [("p", t), ("q", t)], [("ret", B("-", P("p", t), P("q", t)))], name="sub@")
    yield case("S", "call/argument-order", {"funcs": [sub, fn(t, ps, [("ret", ("call", "sub@", [b, a], t))])]}, vecs=vec)
    yield case("S", "call/nested", {"funcs": [sub, fn(t, ps, [("ret", ("call", "sub@", [("call", "sub@", [a, b], t), ("call", "sub@", [b, K(1, t)], t)], t))])]}, vecs=vec)
    vproc = fn("void", [("v", t)], [("if", CMP("<", P("v", t), K(0, t)), [("ret", None)], []), ("set", g, B("+", g, P("v", t)))], name="proc@")
    yield case("S", "call/void-early-return", {"globals": [("g@", t, K(2, t))], "funcs": [vproc, fn(t, ps, [("do", ("call", "proc@", [a], "void")), ("do", ("call", "proc@", [b], "void")), ("ret", g)])]}, vecs=vec)


# ---- aggregates

def fam_A(thorough):
    t = "int"
    a, b = P("a", t), P("b", t)
    ps = [("a", t), ("b", t)]
    vec = small_vectors([t, t])
    ftypes = ["int", "byte", "int16_t", "int64_t", "uint32_t", "bool", "double"] if thorough else ["int", "byte", "int64_t"]
    # struct with fields of several types: write every field, read them back combined (layout independent)
    fields = [("f%d" % n, ft) for n, ft in enumerate(["byte", "int", "int8_t", "int64_t", "uint16_t", "byte"])]
    S = ("struct", "S@")
    for where in ("global", "local"):
        s = P("s@" if where == "global" else "s", S)
        decl = [] if where == "global" else [("var", "s", S, None)]
        gl = [("s@", S, None)] if where == "global" else []
        for k_, (fname, ft) in enumerate(fields):
            # write all fields with distinct values derived from a, b; return field k widened to int64
            body = list(decl)
            for n, (fn_, ft2) in enumerate(fields):
                body.append(("set", ("fld", s, fn_, ft2), CAST(B("+", a, K(n * 3, t)) if n % 2 == 0 else B("-", b, K(n, t)), ft2)))
            body.append(("ret", CAST(("fld", s, fname, ft), "int64_t")))
            yield case("A", "struct-%s/field/%s" % (where, cls(ft)), {"types": [("S@", fields)], "globals": gl, "funcs": [fn("int64_t", ps, body)]}, vecs=vec)
        # a later write must not clobber a neighbour
        for k_ in range(len(fields) - 1):
            f1, t1 = fields[k_]
            f2, t2 = fields[k_ + 1]
            body = list(decl) + [("set", ("fld", s, f1, t1), CAST(a, t1)), ("set", ("fld", s, f2, t2), CAST(b, t2)), ("set", ("fld", s, f1, t1), CAST(a, t1)),
                                 ("ret", B("+", B("*", CAST(("fld", s, f2, t2), "int64_t"), K(1000, "int64_t")), CAST(("fld", s, f1, t1), "int64_t")))]
            yield case("A", "struct-%s/neighbour/%s-%s" % (where, cls(t1), cls(t2)), {"types": [("S@", fields)], "globals": gl, "funcs": [fn("int64_t", ps, body)]}, vecs=vec)
    # nested struct and array inside struct
    inner = [("u", "byte"), ("v", "int")]
    outer = [("h", "byte"), ("in", ("struct", "I@")), ("arr", ("arr", "int16_t", 3)), ("z", "int")]
    O = ("struct", "O@")
    o = P("o@", O)
    types = [("I@", inner), ("O@", outer)]
    body = [("set", ("fld", o, "h", "byte"), CAST(a, "byte")), ("set", ("fld", ("fld", o, "in", ("struct", "I@")), "v", "int"), b),
            ("set", ("fld", ("fld", o, "in", ("struct", "I@")), "u", "byte"), CAST(b, "byte")),
            ("set", ("idx", ("fld", o, "arr", ("arr", "int16_t", 3)), B("&", a, K(1, t)), "int16_t"), CAST(a, "int16_t")),
            ("set", ("idx", ("fld", o, "arr", ("arr", "int16_t", 3)), K(2, t), "int16_t"), CAST(b, "int16_t")),
            ("set", ("fld", o, "z", "int"), B("^", a, b))]
    reads = [("nested-field", IMP(("fld", ("fld", o, "in", ("struct", "I@")), "v", "int"), "int")),
             ("nested-byte", CAST(("fld", ("fld", o, "in", ("struct", "I@")), "u", "byte"), "int")),
             ("array-in-struct", CAST(("idx", ("fld", o, "arr", ("arr", "int16_t", 3)), B("&", a, K(1, t)), "int16_t"), "int")),
             ("array-in-struct-2", CAST(("idx", ("fld", o, "arr", ("arr", "int16_t", 3)), K(2, t), "int16_t"), "int")),
             ("after-array", ("fld", o, "z", "int")), ("first", CAST(("fld", o, "h", "byte"), "int"))]
    for name, rd in reads:
        yield case("A", "struct-nested/%s" % name, {"types": types, "globals": [("o@", O, None)], "funcs": [fn(t, ps, body + [("ret", rd)])]}, vecs=vec)
    # arrays: element types, global and local, masked indices, write then read another index
    for et in ftypes:
        if et == "bool":
            continue
        AT = ("arr", et, 4)
        for where in ("global", "local"):
            arr = P("arr@" if where == "global" else "arr", AT)
            gl = [("arr@", AT, None)] if where == "global" else []
            zero = [("set", ("idx", arr, K(n, t), et), K(0, et)) for n in range(4)]
            decl = ([] if where == "global" else [("var", "arr", AT, None)]) + zero
            ia, ib = B("&", a, K(3, t)), B("&", b, K(3, t))
            va = CAST(a, et) if et != "int" else a
            body = decl + [("set", ("idx", arr, ia, et), va), ("set", ("idx", arr, ib, et), CAST(B("+", b, K(1, t)), et) if et != "int" else B("+", b, K(1, t))),
                           ("ret", CAST(("idx", arr, ia, et), "int64_t") if et != "double" else CAST(("idx", arr, ia, et), "int64_t"))]
            if et == "double":
                body[-1] = ("ret", CAST(B("+", ("idx", arr, ia, et), ("idx", arr, K(1, t), et)), "int64_t"))
            yield case("A", "array-%s/%s" % (where, cls(et)), {"globals": gl, "funcs": [fn("int64_t", ps, body)]}, vecs=vec)
            body2 = decl + [("for", ("set", P("i", t), K(0, t)), CMP("<", P("i", t), K(4, t)), ("aug", "+", P("i", t), K(1, t)),
                             [("set", ("idx", arr, P("i", t), et), CAST(B("+", B("*", P("i", t), a), b), et) if et != "int" else B("+", B("*", P("i", t), a), b))]),
                            ("ret", CAST(("idx", arr, ia, et), "int64_t"))]
            body2.insert(0, ("var", "i", t, K(0, t)))
            if et != "double":
                yield case("A", "array-%s-loop/%s" % (where, cls(et)), {"globals": gl, "funcs": [fn("int64_t", ps, body2)]}, vecs=vec)
    # initialisers
    yield case("A", "init/global-scalar", {"globals": [("g@", t, K(60, t)), ("h@", "byte", K(6, t))],
                                           "funcs": [fn(t, ps, [("ret", B("+", B("+", P("g@", t), CAST(P("h@", "byte"), t)), a))])]}, vecs=vec)
    AT = ("arr", t, 3)
    yield case("A", "init/global-array", {"globals": [("ga@", AT, [K(9, t), K(5, t), K(7, t)])],
                                          "funcs": [fn(t, ps, [("ret", B("+", ("idx", P("ga@", AT), B("&", a, K(1, t)), t), ("idx", P("ga@", AT), K(2, t), t)))])]}, vecs=vec)
    yield case("A", "init/local-array", simple(t, ps, [("var", "la", AT, [a, B("+", a, b), K(4, t)]),
                                                       ("ret", B("-", ("idx", P("la", AT), B("&", b, K(1, t)), t), ("idx", P("la", AT), K(2, t), t)))]), vecs=vec)
    BT = ("arr", "byte", 4)
    yield case("A", "init/global-byte-array", {"globals": [("gb@", BT, [K(1, t), K(200, t), K(3, t), K(255, t)])],
                                               "funcs": [fn(t, ps, [("ret", CAST(("idx", P("gb@", BT), B("&", a, K(3, t)), "byte"), t))])]}, vecs=vec)
    # pointers: to local, to global, to field, to element, passed to a function, written through
    g = P("g@", t)
    pt = ("ptr", t)
    p = P("p", pt)
    yield case("A", "pointer/global", {"globals": [("g@", t, K(5, t))], "funcs": [fn(t, ps, [("var", "p", pt, None), ("set", p, ("addr", g, pt)), ("set", ("deref", p, t), B("+", ("deref", p, t), a)), ("ret", B("-", g, b))])]}, vecs=vec)
    yield case("A", "pointer/local", simple(t, ps, [("var", "v", t, a), ("var", "p", pt, None), ("set", p, ("addr", P("v", t), pt)), ("set", ("deref", p, t), B("*", ("deref", p, t), b)), ("ret", P("v", t))]), vecs=vec)
    yield case("A", "pointer/param", simple(t, ps, [("var", "p", pt, None), ("set", p, ("addr", a, pt)), ("aug", "+", ("deref", p, t), b), ("ret", a)]), vecs=vec)
    swap = fn("void", [("p", pt), ("q", pt)], [("var", "tmp", t, ("deref", P("p", pt), t)), ("set", ("deref", P("p", pt), t), ("deref", P("q", pt), t)), ("set", ("deref", P("q", pt), t), P("tmp", t))], name="swap@")
    yield case("A", "pointer/byref-swap", {"funcs": [swap, fn(t, ps, [("do", ("call", "swap@", [("addr", a, pt), ("addr", b, pt)], "void")), ("ret", B("-", a, b))])]}, vecs=vec)
    AT4 = ("arr", t, 4)
    arr = P("arr@", AT4)
    yield case("A", "pointer/element", {"globals": [("arr@", AT4, [K(1, t), K(2, t), K(3, t), K(4, t)])],
                                        "funcs": [fn(t, ps, [("var", "p", pt, None), ("set", p, ("addr", ("idx", arr, B("&", a, K(3, t)), t), pt)), ("set", ("deref", p, t), b),
                                                             ("ret", B("+", ("idx", arr, B("&", a, K(3, t)), t), ("idx", arr, K(0, t), t)))])]}, vecs=vec)
    fields2 = [("c", "byte"), ("n", t), ("m", t)]
    S2 = ("struct", "T@")
    ps2 = ("ptr", S2)
    s2 = P("t@", S2)
    sp = P("sp", ps2)
    yield case("A", "pointer/arrow", {"types": [("T@", fields2)], "globals": [("t@", S2, None)],
                                      "funcs": [fn(t, ps, [("var", "sp", ps2, None), ("set", sp, ("addr", s2, ps2)), ("set", ("arrow", sp, "n", t), a), ("set", ("arrow", sp, "m", t), b),
                                                           ("set", ("arrow", sp, "c", "byte"), CAST(b, "byte")),
                                                           ("ret", B("-", B("*", ("fld", s2, "n", t), K(3, t)), B("+", ("fld", s2, "m", t), CAST(("arrow", sp, "c", "byte"), t))))])]}, vecs=vec)
    yield case("A", "pointer/field", {"types": [("T@", fields2)], "globals": [("t@", S2, None)],
                                      "funcs": [fn(t, ps, [("var", "p", pt, None), ("set", ("fld", s2, "n", t), a), ("set", p, ("addr", ("fld", s2, "m", t), pt)), ("set", ("deref", p, t), b),
                                                           ("ret", B("-", ("fld", s2, "n", t), ("fld", s2, "m", t)))])]}, vecs=vec)
    getn = fn(t, [("q", ps2)], [("set", ("arrow", P("q", ps2), "m", t), B("+", ("arrow", P("q", ps2), "m", t), K(1, t))), ("ret", ("arrow", P("q", ps2), "n", t))], name="getn@")
    yield case("A", "pointer/struct-param", {"types": [("T@", fields2)], "globals": [("t@", S2, None)],
                                             "funcs": [getn, fn(t, ps, [("set", ("fld", s2, "n", t), a), ("set", ("fld", s2, "m", t), b),
                                                                        ("var", "r", t, ("call", "getn@", [("addr", s2, ps2)], t)),
                                                                        ("ret", B("+", B("*", P("r", t), K(100, t)), ("fld", s2, "m", t)))])]}, vecs=vec)
    bp = ("ptr", "byte")
    yield case("A", "pointer/byte", simple(t, ps, [("var", "v", "byte", CAST(a, "byte")), ("var", "p", bp, None), ("set", P("p", bp), ("addr", P("v", "byte"), bp)),
                                                   ("aug", "+", ("deref", P("p", bp), "byte"), CAST(b, "byte")), ("ret", CAST(P("v", "byte"), t))]), vecs=vec)
    # array of structs
    AS = ("arr", S2, 3)
    as_ = P("as@", AS)
    ia = B("&", a, K(1, t))
    yield case("A", "array-of-struct", {"types": [("T@", fields2)], "globals": [("as@", AS, None)],
                                        "funcs": [fn(t, ps, [("set", ("fld", ("idx", as_, ia, S2), "m", t), a), ("set", ("fld", ("idx", as_, K(2, t), S2), "n", t), b),
                                                             ("set", ("fld", ("idx", as_, ia, S2), "c", "byte"), CAST(b, "byte")),
                                                             ("ret", B("+", B("*", ("fld", ("idx", as_, ia, S2), "m", t), K(7, t)),
                                                                       B("+", ("fld", ("idx", as_, K(2, t), S2), "n", t), CAST(("fld", ("idx", as_, ia, S2), "c", "byte"), t))))])]}, vecs=vec)
    # sizeof of base types
    for st, n in (("int", 4), ("byte", 1), ("int16_t", 2), ("int64_t", 8), ("uint32_t", 4), ("double", 8)):
        cs = case("A", "sizeof/%s" % st, simple(t, ps, [("ret", B("+", a, K(n, t)))]), vecs=vec[:8])
        cs["c3"] = cs["c3"].replace("return (a + %d);" % n, "return (a + sizeof(%s));" % st)
        cs["src"] = cs["src"].replace("return (a + ((int)%dULL));" % n, "return (a + (int)sizeof(%s));" % CNAME[st])
        yield cs


def raw_case(fam, feat, c3, c, ret, params, vecs, globals_=(), cmp_globals=(), mods=None):
    """A case written as two texts (used where the abstract tree has no node, e.g. const definitions, imports, literals' spelling)."""
    cs = {"fam": fam, "feat": feat, "c3": c3, "src": C_HELPERS + c, "fname": "f@", "ret": CNAME[ret], "params": [CNAME[t] for t in params],
          "c3params": list(params), "c3ret": ret, "vectors": vecs, "globals": list(globals_), "cmp_globals": list(cmp_globals)}
    if mods:
        cs["c3mods"] = mods
    return cs


def const_trees(lits):
    """constant expressions of depth <= 2 over + - * / % on non-negative literals."""
    ops = ["+", "-", "*", "/", "%"]
    d1 = [(op, a, b) for op in ops for a in lits for b in lits if not (op in "/%" and b == 0)]
    d1.sort(key=lambda e: e[1] == e[2])  # inexact quotients first: the recorded witness shows a wrong value, not only a wrong kind
    for e in d1:
        yield e
    for op2 in ops:
        for op1, a, b in d1[::3]:
            for c in lits[:3]:
                yield (op2, (op1, a, b), c)
                yield (op2, c, (op1, a, b))


def const_text(e):
    if isinstance(e, int):
        return str(e)
    return "(%s %s %s)" % (const_text(e[1]), e[0], const_text(e[2]))


def const_value_defined(e):
    """C value of the tree in int arithmetic, or None when C leaves it undefined (division by zero, overflow)."""
    if isinstance(e, int):
        return e
    a, b = const_value_defined(e[1]), const_value_defined(e[2])
    if a is None or b is None:
        return None
    op = e[0]
    if op in "/%":
        if b == 0:
            return None
        q = abs(a) // abs(b) * (1 if (a < 0) == (b < 0) else -1)
        r = q if op == "/" else a - q * b
    else:
        r = {"+": a + b, "-": a - b, "*": a * b}[op]
    return r if -(1 << 31) <= r < (1 << 31) else None


def const_cases(e, with_global=True):
    """The two places where the front end evaluates an integer constant expression itself."""
    vec = [[v] for v in (0, 1, -3, 7)]
    txt = const_text(e)
    tree = const_json(e)
    cs = raw_case("CONST", "const-def", "const int k@ = %s;\nfunction int f@(int a) {\n  return (a + k@);\n}\n" % txt,
                  "static const int k@ = %s;\nint f@(int a) { return (a + k@); }\n" % txt, "int", ["int"], vec)
    cs["const_tree"] = tree
    out = [cs]
    if with_global:
        cs = raw_case("CONST", "global-init", "var int gi@ = %s;\nfunction int f@(int a) {\n  return (a + gi@);\n}\n" % txt,
                      "int gi@ = %s;\nint f@(int a) { return (a + gi@); }\n" % txt, "int", ["int"], vec, ["gi@"], ["gi@"])
        cs["const_tree"] = tree
        out.append(cs)
    return out


def const_json(e):
    return e if isinstance(e, int) else [e[0], const_json(e[1]), const_json(e[2])]


def const_subtrees(e):
    """post-order list of the operator nodes of a constant tree (JSON form)."""
    if isinstance(e, int):
        return []
    return const_subtrees(e[1]) + const_subtrees(e[2]) + [e]


def fam_CONST(thorough):
    """`const` definitions and initial values of globals are evaluated by the front end itself: C3 integer arithmetic on literals."""
    vec = [[v] for v in (0, 1, -3, 7)]
    lits = [7, 2, 0, 3, 100] if thorough else [7, 2, 0]
    seen = 0
    for e in const_trees(lits):
        if const_value_defined(e) is None:
            continue
        txt = const_text(e)
        depth = "d1" if isinstance(e[1], int) and isinstance(e[2], int) else "d2"
        ops = e[0] if depth == "d1" else "".join(sorted({e[0]} | {x[0] for x in e[1:] if isinstance(x, tuple)}))
        seen += 1
        if depth == "d2" and not thorough and seen % 4:
            continue
        for cs in const_cases(e, depth == "d1" or thorough):
            yield cs
    # negative operands exist only as (0 - n): the sign rules of / and % (truncation, remainder has the sign of the dividend)
    for e in (("/", ("-", 0, 7), 2), ("%", ("-", 0, 7), 2), ("/", 7, ("-", 0, 2)), ("%", 7, ("-", 0, 2)), ("/", ("-", 0, 7), ("-", 0, 2)),
              ("%", ("-", 0, 7), ("-", 0, 2)), ("*", ("-", 0, 7), 3), ("-", ("-", 0, 7), 3)):
        for cs in const_cases(e, True):
            yield cs
    # constants referring to constants, used as array size and in a switch label position (labels are literals only)
    yield raw_case("CONST", "const-ref", "const int k1@ = 5;\nconst int k2@ = (k1@ * 3);\nfunction int f@(int a) {\n  return (a + k2@);\n}\n",
                   "static const int k1@ = 5; static const int k2@ = (5 * 3);\nint f@(int a) { return (a + k2@); }\n", "int", ["int"], vec)
    yield raw_case("CONST", "const-array-size", "const int n@ = (2 + 2);\nvar int[n@] arr@;\nfunction int f@(int a) {\n  arr@[3] = a;\n  arr@[0] = 1;\n  return (arr@[3] + arr@[0]);\n}\n",
                   "int arr@[4];\nint f@(int a) { arr@[3] = a; arr@[0] = 1; return (arr@[3] + arr@[0]); }\n", "int", ["int"], vec, ["arr@"], ["arr@"])
    yield raw_case("CONST", "const-byte", "const byte kb@ = 200;\nfunction int f@(int a) {\n  return (a + cast<int>(kb@));\n}\n",
                   "static const unsigned char kb@ = 200;\nint f@(int a) { return (a + (int)kb@); }\n", "int", ["int"], vec)
    yield raw_case("CONST", "hex-literal", "function int f@(int a) {\n  return ((a + 0x1F) ^ 0xff);\n}\n",
                   "int f@(int a) { return ((a + 0x1F) ^ 0xff); }\n", "int", ["int"], vec)
    yield raw_case("CONST", "const-double", "const double kd@ = 2.5;\nfunction double f@(int a) {\n  return (cast<double>(a) * kd@);\n}\n",
                   "static const double kd@ = 2.5;\ndouble f@(int a) { return ((double)a * kd@); }\n", "double", ["int"], vec)


def fam_MOD():
    """two modules: imported functions, variables and types are the same objects in both."""
    vec = small_vectors(["int", "int"])
    lib = ("module lib@;\npublic var int counter@ = 3;\npublic function int twice@(int v) {\n  counter@ += 1;\n  return (v + v);\n}\n"
           "public type struct { int p; byte q; } pair@;\npublic function int sub@(int p, int q) {\n  return (p - q);\n}\n")
    clib = ("int counter@ = 3;\nint twice@(int v) { counter@ = counter@ + 1; return (v + v); }\ntypedef struct { int p; unsigned char q; } pair@;\n"
            "int sub@(int p, int q) { return (p - q); }\n")
    yield raw_case("MOD", "import/function", "import lib@;\nfunction int f@(int a, int b) {\n  return (lib@.twice@(a) - lib@.sub@(b, a));\n}\n",
                   clib + "int f@(int a, int b) { return (twice@(a) - sub@(b, a)); }\n", "int", ["int", "int"], vec, ["counter@"], [], mods=[lib])
    yield raw_case("MOD", "import/variable", "import lib@;\nfunction int f@(int a, int b) {\n  lib@.counter@ = (lib@.counter@ + a);\n  var int r = lib@.twice@(b);\n  return (r + lib@.counter@);\n}\n",
                   clib + "int f@(int a, int b) { counter@ = (counter@ + a); int r = twice@(b); return (r + counter@); }\n", "int", ["int", "int"], vec, ["counter@"], [], mods=[lib])
    yield raw_case("MOD", "import/type", "import lib@;\nvar lib@.pair@ pr@;\nfunction int f@(int a, int b) {\n  pr@.p = a;\n  pr@.q = cast<byte>(b);\n  return (pr@.p + cast<int>(pr@.q));\n}\n",
                   clib + "pair@ pr@;\nint f@(int a, int b) { pr@.p = a; pr@.q = (unsigned char)b; return (pr@.p + (int)pr@.q); }\n", "int", ["int", "int"], vec, ["counter@", "pr@"], [], mods=[lib])


def fam_X(thorough):
    """further statement forms: shorthand assignment through every kind of lvalue, bool storage, typedef'd names, literal conditions,
    unary plus, a local hiding a global."""
    t = "int"
    a, b = P("a", t), P("b", t)
    ps = [("a", t), ("b", t)]
    vec = small_vectors([t, t])
    AT = ("arr", t, 4)
    arr = P("arr@", AT)
    S = ("struct", "S@")
    s = P("s@", S)
    fields = [("c", "byte"), ("n", t), ("d", "byte")]
    pt = ("ptr", t)
    ia = B("&", a, K(3, t))
    for op in AUGOPS:
        yield case("X", "aug-lvalue/element/%s=" % op, {"globals": [("arr@", AT, [K(1, t), K(2, t), K(3, t), K(4, t)])],
                                                        "funcs": [fn(t, ps, [("aug", op, ("idx", arr, ia, t), b), ("ret", B("+", ("idx", arr, ia, t), ("idx", arr, K(1, t), t)))])]}, vecs=vec)
        yield case("X", "aug-lvalue/field/%s=" % op, {"types": [("S@", fields)], "globals": [("s@", S, None)],
                                                      "funcs": [fn(t, ps, [("set", ("fld", s, "n", t), a), ("set", ("fld", s, "d", "byte"), K(9, "byte")), ("aug", op, ("fld", s, "n", t), b),
                                                                           ("ret", B("+", ("fld", s, "n", t), CAST(("fld", s, "d", "byte"), t)))])]}, vecs=vec)
        yield case("X", "aug-lvalue/deref/%s=" % op, simple(t, ps, [("var", "v", t, a), ("var", "p", pt, None), ("set", P("p", pt), ("addr", P("v", t), pt)),
                                                                    ("aug", op, ("deref", P("p", pt), t), b), ("ret", P("v", t))]), vecs=vec)
        yield case("X", "aug-lvalue/byte-field/%s=" % op, {"types": [("S@", fields)], "globals": [("s@", S, None)],
                                                           "funcs": [fn(t, ps, [("set", ("fld", s, "c", "byte"), CAST(a, "byte")), ("set", ("fld", s, "n", t), K(77, t)),
                                                                                ("aug", op, ("fld", s, "c", "byte"), CAST(b, "byte")),
                                                                                ("ret", B("+", B("*", CAST(("fld", s, "c", "byte"), t), K(1000, t)), ("fld", s, "n", t)))])]}, vecs=vec)
    # the index / address expression of a shorthand assignment is evaluated once
    ext = fn(t, [("v", t)], [("set", P("g@", t), B("+", P("g@", t), K(1, t))), ("ret", B("&", P("v", t), K(3, t)))], name="ext@")
    yield case("X", "aug-lvalue/index-evaluated-once", {"globals": [("g@", t, K(0, t)), ("arr@", AT, [K(1, t), K(2, t), K(3, t), K(4, t)])],
                                                        "funcs": [ext, fn(t, ps, [("aug", "+", ("idx", arr, ("call", "ext@", [a], t), t), b),
                                                                                  ("ret", B("+", B("*", P("g@", t), K(100, t)), ("idx", arr, ia, t)))])]}, vecs=vec)
    # bool stored in a variable, a global, a struct field, an array; passed and returned
    bt = "bool"
    c1 = CMP("<", a, b)
    yield case("X", "bool/global", {"globals": [("flag@", bt, None)], "funcs": [fn(t, ps, [("set", P("flag@", bt), c1), ("if", P("flag@", bt), [("ret", K(1, t))], []), ("ret", K(0, t))])]}, vecs=vec)
    yield case("X", "bool/field", {"types": [("B@", [("x", "byte"), ("f", bt), ("y", "byte")])], "globals": [("bs@", ("struct", "B@"), None)],
                                   "funcs": [fn(t, ps, [("set", ("fld", P("bs@", ("struct", "B@")), "y", "byte"), K(1, "byte")), ("set", ("fld", P("bs@", ("struct", "B@")), "f", bt), c1),
                                                        ("set", ("fld", P("bs@", ("struct", "B@")), "x", "byte"), K(1, "byte")),
                                                        ("if", ("fld", P("bs@", ("struct", "B@")), "f", bt), [("ret", K(1, t))], []), ("ret", K(0, t))])]}, vecs=vec)
    yield case("X", "bool/array", {"globals": [("ba@", ("arr", bt, 2), None)],
                                   "funcs": [fn(t, ps, [("set", ("idx", P("ba@", ("arr", bt, 2)), K(0, t), bt), c1), ("set", ("idx", P("ba@", ("arr", bt, 2)), K(1, t), bt), ("not", c1, bt)),
                                                        ("if", ("and", ("idx", P("ba@", ("arr", bt, 2)), K(1, t), bt), ("not", ("idx", P("ba@", ("arr", bt, 2)), K(0, t), bt), bt), bt), [("ret", K(1, t))], []),
                                                        ("ret", K(0, t))])]}, vecs=vec)
    neg = fn(bt, [("v", bt)], [("ret", ("not", P("v", bt), bt))], name="neg@")
    yield case("X", "bool/argument-and-result", {"funcs": [neg, fn(t, ps, [("if", ("call", "neg@", [c1], bt), [("ret", a)], []), ("ret", b)])]}, vecs=vec)
    # literal conditions
    for lit, name in ((True, "true"), (False, "false")):
        kl = K(lit, bt)
        yield case("X", "literal-cond/if-%s" % name, simple(t, ps, [("if", kl, [("ret", a)], [("ret", b)])]), vecs=vec)
        yield case("X", "literal-cond/and-%s" % name, simple(t, ps, [("if", ("and", c1, kl, bt), [("ret", a)], []), ("ret", b)]), vecs=vec)
        yield case("X", "literal-cond/or-%s" % name, simple(t, ps, [("if", ("or", kl, c1, bt), [("ret", a)], []), ("ret", b)]), vecs=vec)
        yield case("X", "literal-cond/value-%s" % name, simple(bt, ps, [("ret", ("or", ("and", c1, kl, bt), ("not", kl, bt), bt))]), vecs=vec)
    yield case("X", "literal-cond/while-false", simple(t, ps, [("var", "x", t, a), ("while", K(False, bt), [("set", P("x", t), b)]), ("ret", P("x", t))]), vecs=vec)
    yield case("X", "literal-cond/while-true-return", simple(t, ps, [("var", "x", t, K(0, t)), ("while", K(True, bt), [("aug", "+", P("x", t), K(1, t)),
                                                                                                                     ("if", CMP(">", P("x", t), B("&", a, K(7, t))), [("ret", B("+", P("x", t), b))], [])]), ("ret", K(0, t))]), vecs=vec)
    # typedef'd names
    cs = case("X", "typedef/alias", simple(t, ps, [("var", "x", t, B("*", a, b)), ("ret", B("-", P("x", t), a))]), vecs=vec)
    cs["c3"] = "type int my@;\ntype my@ my2@;\nfunction my2@ f@(my@ a, int b) {\n  var my2@ x = (a * b);\n  return (x - a);\n}\n"
    yield cs
    cs = case("X", "typedef/pointer", {"globals": [("g@", t, K(5, t))], "funcs": [fn(t, ps, [("var", "p", pt, None), ("set", P("p", pt), ("addr", P("g@", t), pt)), ("set", ("deref", P("p", pt), t), B("+", a, b)), ("ret", B("*", P("g@", t), K(2, t)))])]}, vecs=vec)
    cs["c3"] = cs["c3"].replace("var int* p;", "var ip@ p;").replace("var int g@", "type int* ip@;\nvar int g@")
    yield cs
    # a local (and a parameter) hiding a global of the same name
    cs = raw_case("X", "scope/local-hides-global", "var int h@ = 50;\nfunction int get@() {\n  return h@;\n}\nfunction int f@(int a, int b) {\n  var int h@ = a;\n  h@ += b;\n  return (h@ + get@());\n}\n",
                  "int h@ = 50;\nint get@(void) { return h@; }\nint f@(int a, int b) { int hl = a; hl = hl + b; return (hl + get@()); }\n", t, [t, t], vec, ["h@"], ["h@"])
    yield cs
    cs = raw_case("X", "scope/param-hides-global", "var int h@ = 50;\nfunction int get@() {\n  return h@;\n}\nfunction int f@(int h@, int b) {\n  h@ = (h@ * 2);\n  return (h@ - get@());\n}\n",
                  "int h@ = 50;\nint get@(void) { return h@; }\nint f@(int hp, int b) { hp = (hp * 2); return (hp - get@()); }\n", t, [t, t], vec, ["h@"], ["h@"])
    yield cs
    # unary plus
    for ut in ("int", "byte", "int64_t"):
        cs = case("X", "unary-plus/%s" % ut, simple(ut, [("a", ut)], [("ret", P("a", ut))]), k=5)
        cs["c3"] = cs["c3"].replace("return a;", "return (+a);")
        yield cs


def fam_E2M(types=SIX, pairs=(("+", "/"), ("*", ">>"), ("-", "<"), ("&", "=="), ("/", "*"), ("%", "+"))):
    """depth 2 with three operand types: ((a op1 b) op2 c), every conversion the coercion table inserts."""
    for t1, t2, t3 in itertools.product(types, repeat=3):
        if t1 == t2 == t3:
            continue
        a, b, c = P("a", t1), P("b", t2), P("c", t3)
        for op1, op2 in pairs:
            inner = mixed_bin(op1, a, b)
            if inner is None:
                continue
            e = mixed_bin(op2, inner, c)
            if e is None:
                continue
            yield case("E2M", "(%s)%s/%s/%s/%s" % (op1, op2, t1, t2, t3), simple(ty(e), [("a", t1), ("b", t2), ("c", t3)], [("ret", e)]), k=4)
            inner = mixed_bin(op1, b, c)
            e = mixed_bin(op2, a, inner) if inner is not None else None
            if e is not None:
                yield case("E2M", "%s(%s)/%s/%s/%s" % (op2, op1, t1, t2, t3), simple(ty(e), [("a", t1), ("b", t2), ("c", t3)], [("ret", e)]), k=4)


def fam_CASTCHAIN(types=INT_NAMES):
    """cast<T3>(cast<T2>(a)): truncation and extension compose."""
    for t1, t2, t3 in itertools.product(types, repeat=3):
        if same_type(t1, t2) or same_type(t2, t3):
            continue
        a = P("a", t1)
        yield case("CASTCHAIN", "%s->%s->%s" % (t1, t2, t3), simple(t3, [("a", t1)], [("ret", CAST(CAST(a, t2), t3))]), k=9)


# ==================================================================== extension families (global initialisers, strings, pointer casts,
# externals, recursive types, modules, constants in use, coercion positions)

M64 = (1 << 64) - 1
STR_TYPEDEF = "typedef struct { int len; unsigned char txt[]; } vfstr@;\n"
TRACE_C = ("unsigned long long vf_tr@[64]; int vf_tn@;\n"
           "static void vf_rec@(unsigned long long v){ if (vf_tn@ < 64) vf_tr@[vf_tn@] = v; vf_tn@ = vf_tn@ + 1; }\n")


def c_strlit(name, text):
    """A C object with the layout C3 defines for a string literal (context.pack_string: an int length followed by the text bytes;
    scope.create_top_scope: string = struct { int len; byte[0] txt; } *)."""
    n = len(text)
    return "static struct { int len; unsigned char txt[%d]; } %s = { %d, {%s} };\n" % (max(n, 1), name, n, ", ".join(str(ord(ch)) for ch in text) or "0")


def ext(name, eid, ret, params, mod="m", declare=True):
    """An external function: declared without body in C3; the harness defines it on both sides (see ext_c_def / c37.make_external)."""
    return {"name": name, "id": eid, "ret": ret, "params": list(params), "mod": mod, "declare": declare}


def ext_ctype(t):
    if t == "int*":
        return "int *"
    if t == "string":
        return "vfstr@ *"
    return CNAME[t]


def ext_c3_decl(x, public=False):
    return "%sfunction %s %s(%s);" % ("public " if public else "", x["ret"], x["name"], ", ".join("%s p%d" % (t, i) for i, t in enumerate(x["params"])))


def ext_c_def(x):
    """The fixed semantics of every external: append (id, one word per argument) to the trace; result = 3 * (sum of the argument
    words) + id + 1 modulo 2^64, converted to the result type.  int* arguments contribute the pointed-to value, which is then
    incremented; string arguments contribute their length and a hash of their text."""
    body = ["unsigned long long s = 0ULL;", "vf_rec@(%dULL);" % x["id"]]
    for i, t in enumerate(x["params"]):
        p = "p%d" % i
        if t in INTS or t == "bool":
            body.append("{ unsigned long long v = (unsigned long long)(long long)%s; vf_rec@(v); s += v; }" % p)
        elif t in FLOATS:
            body.append("{ double d = (double)%s; unsigned long long b; memcpy(&b, &d, 8); vf_rec@(b); s += (unsigned long long)(long long)d; }" % p)
        elif t == "int*":
            body.append("{ unsigned long long v = (unsigned long long)(long long)*%s; vf_rec@(v); s += v; *%s = (int)((unsigned)*%s + 1u); }" % (p, p, p))
        elif t == "string":
            body.append("{ unsigned long long h = 0ULL; for (int i = 0; i < %s->len; i++) h = h * 31ULL + %s->txt[i]; "
                        "vf_rec@((unsigned long long)(long long)%s->len); vf_rec@(h); s += (unsigned long long)(long long)%s->len; }" % (p, p, p, p))
        else:
            raise ValueError(t)
    r = "(3ULL * s + %dULL + 1ULL)" % x["id"]
    rt = x["ret"]
    if rt == "void":
        pass
    elif rt == "bool":
        body.append("return (int)(%s & 1ULL);" % r)
    elif rt in FLOATS:
        body.append("return (%s)((double)(long long)%s + 0.5);" % (rt, r))
    else:
        body.append("return (%s)%s;" % (CNAME[rt], r))
    sig = ", ".join("%s p%d" % (ext_ctype(t), i) for i, t in enumerate(x["params"])) or "void"
    return "%s %s(%s){ %s }\n" % (CNAME[rt], x["name"], sig, " ".join(body))


def xcase(fam, feat, c3, c, ret="int", params=("int",), vecs=None, globals_=(), cmp_globals=(), mods=None, externs=None, expect=None, ref=None,
          strings=False):
    """A case written as two texts, optionally with externals (trace compared), an expected diagnostic, or a reference into ppci's own
    documentation / tests saying the construct is valid."""
    if vecs is None:
        vecs = small_vectors(list(params)) if len(params) <= 2 and all(is_int(t) for t in params) else vectors(list(params), 5, 16)
    pre = STR_TYPEDEF if (strings or any("string" in x["params"] for x in externs or [])) else ""
    if externs:
        c3 = "".join(ext_c3_decl(x) + "\n" for x in externs if x["declare"]) + c3
        pre += TRACE_C + "".join(ext_c_def(x) for x in externs)
        globals_ = list(globals_) + ["vf_tr@", "vf_tn@"]
    cs = raw_case(fam, feat, c3, pre + c, ret, list(params), vecs, globals_, cmp_globals, mods)
    if externs:
        cs["externs"] = externs
    if expect:
        cs["expect"] = expect
    if ref:
        cs["ref"] = ref
    return cs


def invalid(fam, feat, c3, mods=None):
    """A program that is not C3 (ppci's own tests / the structure of the language say so): the front end must answer with a diagnostic.
    Nothing is executed; the C text is a placeholder."""
    return xcase(fam, "invalid/" + feat, c3, "int f@(int a) { return 0; }\n", "int", ["int"], [[0]], mods=mods, expect="diagnostic")


ALL12 = INT_NAMES + ["float", "double"]
GI_VALUE = {"int": 70000, "byte": 200, "int8_t": 100, "int16_t": 30000, "int32_t": 70000, "int64_t": 70000, "uint8_t": 200, "uint16_t": 60000,
            "uint32_t": 70000, "uint64_t": 70000, "float": 2.5, "double": 2.5}


def wide(t):
    return "double" if is_float(t) else "int64_t"


def c3_lit(v):
    return repr(v) if isinstance(v, float) else str(v)


def fam_GI(thorough):
    """global variables with initial values: every scalar type as a scalar / array element / struct field (literal coerced implicitly,
    and through an explicit cast), aggregates nested to depth 2, constant expressions as values; local initialisers of struct type."""
    vec3 = [[0], [1], [2]]
    for t in ALL12 + ["bool", "int*"]:
        w = "int64_t" if t in ("bool", "int*") else wide(t)
        cw = CNAME[w]
        if t == "bool":
            forms = [("literal", "true", "1")]
            ct = "int"
            rd3, rdc = "cast<int64_t>(%s)", "(long)%s"
        elif t == "int*":
            forms = [("literal", "0", "0"), ("cast", "cast<int*>(64)", "(int *)64")]
            ct = "int *"
            rd3, rdc = "cast<int64_t>(%s)", "(long)%s"
        else:
            v = GI_VALUE[t]
            ct = CNAME[t]
            forms = [("literal", c3_lit(v), "(%s)%s" % (ct, c3_lit(v))), ("cast", "cast<%s>(%s)" % (t, c3_lit(v)), "(%s)%s" % (ct, c3_lit(v)))]
            if is_float(t):
                forms.append(("int-literal", "3", "(%s)3" % ct))
            elif not signed(t):
                forms.append(("wrapping-literal", str(GI_VALUE[t] + (1 << bits(t))) if bits(t) < 32 else "7", "(%s)%s" % (ct, GI_VALUE[t] if bits(t) < 32 else 7)))
            rd3, rdc = "cast<%s>(%%s)" % w, "(%s)%%s" % cw
        c3t = t
        for form, v3, vc in forms:
            if t == "bool":
                yield xcase("GI", "scalar/%s/%s" % (form, t), "var bool g@ = %s;\nfunction int f@(int a) {\n  if (g@) {\n    return (a + 1);\n  }\n  return a;\n}\n" % v3,
                            "int g@ = %s;\nint f@(int a) { if (g@) { return (a + 1); } return a; }\n" % vc, "int", ["int"], vec3, ["g@"], ["g@"])
                continue
            yield xcase("GI", "scalar/%s/%s" % (form, t), "var %s g@ = %s;\nfunction %s f@(int a) {\n  return %s;\n}\n" % (c3t, v3, w, rd3 % "g@"),
                        "%s g@ = %s;\n%s f@(int a) { return %s; }\n" % (ct, vc, cw, rdc % "g@"), w, ["int"], [[0]], ["g@"], ["g@"])
            yield xcase("GI", "array-element/%s/%s" % (form, t), "var %s[3] g@ = {%s, %s, %s};\nfunction %s f@(int a) {\n  return %s;\n}\n" % (c3t, v3, v3, v3, w, rd3 % "g@[a]"),
                        "%s g@[3] = {%s, %s, %s};\n%s f@(int a) { return %s; }\n" % (ct, vc, vc, vc, cw, rdc % "g@[a]"), w, ["int"], vec3, ["g@"], ["g@"])
            yield xcase("GI", "struct-field/%s/%s" % (form, t), "type struct { byte c; %s v; byte d; } S@;\nvar S@ g@ = {.c=7, .v=%s, .d=9};\nfunction %s f@(int a) {\n  return (%s + cast<%s>((g@.c + g@.d)));\n}\n"
                        % (c3t, v3, w, rd3 % "g@.v", w),
                        "typedef struct { unsigned char c; %s v; unsigned char d; } S@;\nS@ g@ = {.c=7, .v=%s, .d=9};\n%s f@(int a) { return (%s + (%s)(unsigned char)(g@.c + g@.d)); }\n"
                        % (ct, vc, cw, rdc % "g@.v", cw), w, ["int"], [[0]], ["g@"], [])
    # aggregates (fields of the types every form of which the front end accepts): each field / element read back
    sdef3 = "type struct { int x; byte y; int z; } S@;\n"
    sdefc = "typedef struct { int x; unsigned char y; int z; } S@;\n"
    for k, (r3, rc) in enumerate((("g@.x", "g@.x"), ("cast<int>(g@.y)", "(int)g@.y"), ("g@.z", "g@.z"))):
        yield xcase("GI", "struct/field-%d" % k, sdef3 + "var S@ g@ = {.x=11, .y=22, .z=33};\nfunction int f@(int a) {\n  return (a + %s);\n}\n" % r3,
                    sdefc + "S@ g@ = {.x=11, .y=22, .z=33};\nint f@(int a) { return (a + %s); }\n" % rc, "int", ["int"], [[0], [5]], ["g@"], [])
    idef3 = "type struct { byte u; int v; } I@;\n"
    idefc = "typedef struct { unsigned char u; int v; } I@;\n"
    odef3 = idef3 + "type struct { byte h; I@ in; int[3] arr; double d; } O@;\n"
    odefc = idefc + "typedef struct { unsigned char h; I@ in; int arr[3]; double d; } O@;\n"
    oinit = "{.h=1, .in={.u=2, .v=3}, .arr={4, 5, 6}, .d=2.5}"
    for name, r3, rc, rt in (("first", "cast<int>(o@.h)", "(int)o@.h", "int"), ("nested-byte", "cast<int>(o@.in.u)", "(int)o@.in.u", "int"), ("nested-int", "o@.in.v", "o@.in.v", "int"),
                             ("array-in-struct", "o@.arr[a]", "o@.arr[a]", "int"), ("after-array", "o@.d", "o@.d", "double")):
        yield xcase("GI", "struct-nested/%s" % name, odef3 + "var O@ o@ = %s;\nfunction %s f@(int a) {\n  return %s;\n}\n" % (oinit, rt, r3),
                    odefc + "O@ o@ = %s;\n%s f@(int a) { return %s; }\n" % (oinit, CNAME[rt], rc), rt, ["int"], vec3, ["o@"], [])
    yield xcase("GI", "array-of-struct", idef3 + "var I@[2] g@ = {{.u=1, .v=a1@}, {.u=3, .v=(a1@ * 2)}};\nconst int a1@ = 21;\nfunction int f@(int a) {\n  return (g@[a].v + cast<int>(g@[a].u));\n}\n",
                idefc + "I@ g@[2] = {{.u=1, .v=21}, {.u=3, .v=(21 * 2)}};\nint f@(int a) { return (g@[a].v + (int)g@[a].u); }\n", "int", ["int"], [[0], [1]], ["g@"], [])
    yield xcase("GI", "array-2d", "var int[3][2] g@ = {{1, 4, 5}, {9, 8, 7}};\nfunction int f@(int a, int b) {\n  return g@[a][b];\n}\n",
                "int g@[2][3] = {{1, 4, 5}, {9, 8, 7}};\nint f@(int a, int b) { return g@[a][b]; }\n", "int", ["int", "int"], [[i, j] for i in range(2) for j in range(3)], ["g@"], ["g@"],
                ref="test/lang/test_c3.py test_array_initialization")
    yield xcase("GI", "array-byte-2d", "var byte[2][3] g@ = {{1, 200}, {3, 4}, {255, 6}};\nfunction int f@(int a, int b) {\n  return cast<int>(g@[a][b]);\n}\n",
                "unsigned char g@[3][2] = {{1, 200}, {3, 4}, {255, 6}};\nint f@(int a, int b) { return (int)g@[a][b]; }\n", "int", ["int", "int"], [[i, j] for i in range(3) for j in range(2)], ["g@"], ["g@"])
    yield xcase("GI", "array-of-struct-with-array", "type struct { byte t; int[2] p; } R@;\nvar R@[2] g@ = {{.t=1, .p={10, 20}}, {.t=2, .p={30, 40}}};\nfunction int f@(int a, int b) {\n  return (g@[a].p[b] + cast<int>(g@[a].t));\n}\n",
                "typedef struct { unsigned char t; int p[2]; } R@;\nR@ g@[2] = {{.t=1, .p={10, 20}}, {.t=2, .p={30, 40}}};\nint f@(int a, int b) { return (g@[a].p[b] + (int)g@[a].t); }\n", "int", ["int", "int"],
                [[i, j] for i in range(2) for j in range(2)], ["g@"], [])
    yield xcase("GI", "const-expression-values", "const int n@ = 4;\nvar int g@ = (n@ * 2);\nvar int[3] h@ = {n@, (n@ + 1), (7 / 2)};\nfunction int f@(int a) {\n  return (g@ + h@[a]);\n}\n",
                "int g@ = (4 * 2);\nint h@[3] = {4, (4 + 1), (7 / 2)};\nint f@(int a) { return (g@ + h@[a]); }\n", "int", ["int"], vec3, ["g@", "h@"], ["g@", "h@"])
    yield xcase("GI", "two-struct-types", "type struct { int x; } P@;\ntype struct { byte y; int z; } Q@;\ntype struct { P@ p; Q@ q; } PQ@;\nvar PQ@ g@ = {.p={.x=5}, .q={.y=6, .z=7}};\n"
                "function int f@(int a) {\n  return ((g@.p.x * 100) + ((cast<int>(g@.q.y) * 10) + g@.q.z));\n}\n",
                "typedef struct { int x; } P@;\ntypedef struct { unsigned char y; int z; } Q@;\ntypedef struct { P@ p; Q@ q; } PQ@;\nPQ@ g@ = {.p={.x=5}, .q={.y=6, .z=7}};\n"
                "int f@(int a) { return ((g@.p.x * 100) + (((int)g@.q.y * 10) + g@.q.z)); }\n", "int", ["int"], [[0]], ["g@"], [])
    yield xcase("GI", "same-struct-type-twice", "type struct { int x; } P@;\ntype struct { P@ p; P@ q; } PP@;\nvar PP@ g@ = {.p={.x=5}, .q={.x=6}};\nfunction int f@(int a) {\n  return ((g@.p.x * 10) + g@.q.x);\n}\n",
                "typedef struct { int x; } P@;\ntypedef struct { P@ p; P@ q; } PP@;\nPP@ g@ = {.p={.x=5}, .q={.x=6}};\nint f@(int a) { return ((g@.p.x * 10) + g@.q.x); }\n", "int", ["int"], [[0]], ["g@"], [])
    # an initialised global is a variable: written later, the other elements keep their initial values
    yield xcase("GI", "initialised-then-written", sdef3 + "var S@ g@ = {.x=11, .y=22, .z=33};\nvar int[3] h@ = {1, 2, 3};\nfunction int f@(int a) {\n  g@.y = cast<byte>(a);\n  h@[1] = a;\n  return (((g@.x + cast<int>(g@.y)) + g@.z) + ((h@[0] + h@[1]) + h@[2]));\n}\n",
                sdefc + "S@ g@ = {.x=11, .y=22, .z=33};\nint h@[3] = {1, 2, 3};\nint f@(int a) { g@.y = (unsigned char)a; h@[1] = a; return (((g@.x + (int)g@.y) + g@.z) + ((h@[0] + h@[1]) + h@[2])); }\n",
                "int", ["int"], [[0], [5], [300], [-1]], ["g@", "h@"], ["h@"])
    # local variables of struct type with initialisers evaluated at run time
    yield xcase("GI", "local-struct", "type struct { byte u; int v; int64_t w; } L@;\nfunction int f@(int a, int b) {\n  var L@ s = {.u=cast<byte>(a), .v=(a + b), .w=cast<int64_t>(b)};\n  return (((cast<int>(s.u) * 100) + (s.v * 10)) + cast<int>(s.w));\n}\n",
                "typedef struct { unsigned char u; int v; long w; } L@;\nint f@(int a, int b) { L@ s = {.u=(unsigned char)a, .v=(a + b), .w=(long)b}; return ((((int)s.u * 100) + (s.v * 10)) + (int)s.w); }\n", "int", ["int", "int"])
    yield xcase("GI", "local-struct-nested", idef3 + "type struct { I@ in; int[2] arr; } LO@;\nfunction int f@(int a, int b) {\n  var LO@ s = {.in={.u=cast<byte>(b), .v=a}, .arr={(a - b), 4}};\n  return ((s.in.v + cast<int>(s.in.u)) + (s.arr[0] * s.arr[1]));\n}\n",
                idefc + "typedef struct { I@ in; int arr[2]; } LO@;\nint f@(int a, int b) { LO@ s = {.in={.u=(unsigned char)b, .v=a}, .arr={(a - b), 4}}; return ((s.in.v + (int)s.in.u) + (s.arr[0] * s.arr[1])); }\n", "int", ["int", "int"])
    yield xcase("GI", "local-array-of-struct", idef3 + "function int f@(int a, int b) {\n  var I@[2] s = {{.u=1, .v=a}, {.u=3, .v=b}};\n  return ((s[1].v - s[0].v) + cast<int>(s[1].u));\n}\n",
                idefc + "int f@(int a, int b) { I@ s[2] = {{.u=1, .v=a}, {.u=3, .v=b}}; return ((s[1].v - s[0].v) + (int)s[1].u); }\n", "int", ["int", "int"])
    yield xcase("GI", "local-array-2d", "function int f@(int a, int b) {\n  var int[2][2] m = {{a, b}, {(a + b), 4}};\n  return (((m[0][0] * 1000) + (m[0][1] * 100)) + ((m[1][0] * 10) + m[1][1]));\n}\n",
                "int f@(int a, int b) { int m[2][2] = {{a, b}, {(a + b), 4}}; return (((m[0][0] * 1000) + (m[0][1] * 100)) + ((m[1][0] * 10) + m[1][1])); }\n", "int", ["int", "int"])
    yield xcase("GI", "local-struct-coerced-fields", "type struct { byte u; int64_t w; double d; int v; } LC@;\nfunction double f@(int a, int b) {\n  var LC@ s = {.u=a, .w=b, .d=a, .v=7};\n  return (((cast<double>(s.u) * 1000.0) + cast<double>(s.w)) + (s.d * cast<double>(s.v)));\n}\n",
                "typedef struct { unsigned char u; long w; double d; int v; } LC@;\ndouble f@(int a, int b) { LC@ s = {.u=(unsigned char)a, .w=(long)b, .d=(double)a, .v=7}; return ((((double)s.u * 1000.0) + (double)s.w) + (s.d * (double)s.v)); }\n", "double", ["int", "int"],
                small_vectors(["int", "int"]))
    yield xcase("GI", "local-byte-array-coerced", "function int f@(int a, int b) {\n  var byte[3] s = {1, a, 300};\n  return ((cast<int>(s[1]) + cast<int>(s[2])) + cast<int>(s[0]));\n}\n",
                "int f@(int a, int b) { unsigned char s[3] = {1, (unsigned char)a, (unsigned char)300}; return (((int)s[1] + (int)s[2]) + (int)s[0]); }\n", "int", ["int", "int"])
    # what test_c3.py expects to be refused (test_bad_struct_initialization, test_bad_global_array_initialization) and its neighbours
    two = "type struct { int x; int y; } T@;\n"
    for feat, decl in (("struct-fields-in-other-order", two + "var T@ g@ = {.y=1, .x=2};"), ("struct-field-missing", two + "var T@ g@ = {.x=2};"),
                       ("struct-field-surplus", two + "var T@ g@ = {.x=2, .y=3, .z=4};"), ("struct-positional", two + "var T@ g@ = {1, 2};"),
                       ("struct-unknown-field", two + "var T@ g@ = {.x=1, .q=2};"), ("struct-from-scalar", two + "var T@ g@ = 1;"),
                       ("array-named", "var int[2] g@ = {.x=1, .y=2};"), ("array-too-few", "var int[3] g@ = {1, 2};"), ("array-too-many", "var int[2] g@ = {1, 2, 3};"),
                       ("array-from-scalar", "var int[5] g@ = 4;"), ("scalar-from-list", "var int g@ = {4};"), ("value-not-constant", "var int h@ = 1;\nvar int g@ = (h@ + 1);"),
                       ("nested-array-shape", "var int[3][2] g@ = {{1, 2}, {3, 4}, {5, 6}};"), ("double-into-int", "var int g@ = 2.5;")):
        yield invalid("GI", feat, decl + "\nfunction int f@(int a) {\n  return a;\n}\n")
    yield invalid("GI", "local-struct-fields-in-other-order", two + "function int f@(int a) {\n  var T@ s = {.y=a, .x=1};\n  return s.x;\n}\n")


STR_TEXTS = ["", "a", "hello", "C3 str! #1", "0123456789abcdefghij"]


def fam_STR(thorough):
    """string literals: length and every character of 5 texts (lengths 0, 1, 5, 10, 20) in 4 contexts (local initialiser, assignment to a
    global, argument, element of an array of strings); passing a string on; the documented layout seen through a byte pointer."""
    lens3 = "function int len@(string s) {\n  return s->len;\n}\nfunction int at@(string s, int i) {\n  return cast<int>(s->txt[i]);\n}\n"
    lensc = "int len@(vfstr@ *s) { return s->len; }\nint at@(vfstr@ *s, int i) { return (int)s->txt[i]; }\n"
    for n, text in enumerate(STR_TEXTS):
        L = len(text)
        idx = [[i] for i in range(L)] or [[0]]
        lit = c_strlit("lit@", text)
        ptr = "((vfstr@ *)&lit@)"
        at3 = "cast<int>(%s->txt[a])" if L else "0"
        atc = "(int)%s->txt[a]" if L else "0"
        ctxs = [("local-init", "function int f@(int a) {\n  var string s = \"%s\";\n  return ((s->len * 1000) + %s);\n}\n" % (text, at3 % "s" if L else "0"),
                 lit + "int f@(int a) { vfstr@ *s = %s; return ((s->len * 1000) + %s); }\n" % (ptr, atc % "s" if L else "0"), []),
                ("global-assign", "var string g@;\nfunction int f@(int a) {\n  g@ = \"%s\";\n  return ((g@->len * 1000) + %s);\n}\n" % (text, at3 % "g@" if L else "0"),
                 lit + "vfstr@ *g@;\nint f@(int a) { g@ = %s; return ((g@->len * 1000) + %s); }\n" % (ptr, atc % "g@" if L else "0"), []),
                ("argument", lens3 + "function int f@(int a) {\n  return ((len@(\"%s\") * 1000) + %s);\n}\n" % (text, "at@(\"%s\", a)" % text if L else "0"),
                 lit + lensc + "int f@(int a) { return ((len@(%s) * 1000) + %s); }\n" % (ptr, "at@(%s, a)" % ptr if L else "0"), []),
                ("array-of-strings", "function int f@(int a) {\n  var string[2] t = {\"zz\", \"%s\"};\n  return (((t[1]->len * 1000) + %s) + t[0]->len);\n}\n" % (text, at3 % "t[1]" if L else "0"),
                 lit + c_strlit("zz@", "zz") + "int f@(int a) { vfstr@ *t[2] = {(vfstr@ *)&zz@, %s}; return (((t[1]->len * 1000) + %s) + t[0]->len); }\n" % (ptr, atc % "t[1]" if L else "0"), [])]
        for name, c3, c, gl in ctxs:
            cs = xcase("STR", "%s/len%d" % (name, L), c3, c, "int", ["int"], idx, gl, [], strings=True)
            cs["locus"] = name
            yield cs
        # the layout: bytes 0..3 hold the length (little endian on x86-64), the text follows
        if L:
            cs = xcase("STR", "layout/len%d" % L, "function int f@(int a) {\n  var string s = \"%s\";\n  var byte* p = cast<byte*>(s);\n  return cast<int>(*(p + a));\n}\n" % text,
                        lit + "int f@(int a) { vfstr@ *s = %s; unsigned char *p = (unsigned char *)s; return (int)(*(p + a)); }\n" % ptr, "int", ["int"], [[i] for i in range(4 + L)], strings=True)
            cs["locus"] = "layout"
            yield cs
    text = "hello"
    lit = c_strlit("lit@", text)
    ptr = "((vfstr@ *)&lit@)"
    yield xcase("STR", "passed-on", lens3 + "function int mid@(string s, int i) {\n  return (at@(s, i) + len@(s));\n}\nfunction int f@(int a) {\n  var string s = \"hello\";\n  return mid@(s, a);\n}\n",
                lit + lensc + "int mid@(vfstr@ *s, int i) { return (at@(s, i) + len@(s)); }\nint f@(int a) { vfstr@ *s = %s; return mid@(s, a); }\n" % ptr, "int", ["int"], [[i] for i in range(5)], strings=True)
    yield xcase("STR", "returned", "function string pick@(int i) {\n  if (i > 1) {\n    return \"hello\";\n  }\n  return \"zz\";\n}\nfunction int f@(int a) {\n  var string s = pick@(a);\n  return ((s->len * 1000) + cast<int>(s->txt[1]));\n}\n",
                lit + c_strlit("zz@", "zz") + "vfstr@ *pick@(int i) { if (i > 1) { return %s; } return (vfstr@ *)&zz@; }\nint f@(int a) { vfstr@ *s = pick@(a); return ((s->len * 1000) + (int)s->txt[1]); }\n" % ptr,
                "int", ["int"], [[0], [1], [2], [3]], strings=True)
    yield xcase("STR", "copied-pointer-identity", "function int f@(int a) {\n  var string s = \"hello\";\n  var string t = s;\n  if (s == t) {\n    return (t->len + a);\n  }\n  return 0;\n}\n",
                lit + "int f@(int a) { vfstr@ *s = %s; vfstr@ *t = s; if (s == t) { return (t->len + a); } return 0; }\n" % ptr, "int", ["int"], [[0], [1]], strings=True)
    yield xcase("STR", "loop-over-text", "function int f@(int a) {\n  var string s = \"hello\";\n  var int i = 0;\n  var int h = a;\n  for (i = 0; i < s->len; i += 1) {\n    h = ((h * 31) + cast<int>(s->txt[i]));\n  }\n  return h;\n}\n",
                lit + "int f@(int a) { vfstr@ *s = %s; int i = 0; int h = a; for (i = 0; i < s->len; i = i + 1) { h = (int)(((unsigned)h * 31u) + (unsigned)s->txt[i]); } return h; }\n" % ptr,
                "int", ["int"], [[0], [1], [2]], strings=True)
    yield xcase("STR", "no-escapes", "function int f@(int a) {\n  var string s = \"a\\nb\";\n  return ((s->len * 1000) + cast<int>(s->txt[a]));\n}\n",
                c_strlit("lit@", "a\\nb") + "int f@(int a) { vfstr@ *s = %s; return ((s->len * 1000) + (int)s->txt[a]); }\n" % ptr, "int", ["int"], [[0], [1], [2], [3]], strings=True)
    yield xcase("STR", "sizeof-string", "function int f@(int a) {\n  return (a + sizeof(string));\n}\n", "int f@(int a) { return (a + (int)sizeof(vfstr@ *)); }\n", "int", ["int"], [[0], [1]], strings=True)
    yield xcase("STR", "global-initialiser", "var string g@ = \"hello\";\nfunction int f@(int a) {\n  return ((g@->len * 1000) + cast<int>(g@->txt[a]));\n}\n",
                lit + "vfstr@ *g@ = %s;\nint f@(int a) { return ((g@->len * 1000) + (int)g@->txt[a]); }\n" % ptr, "int", ["int"], [[i] for i in range(5)], ["g@"], [], strings=True)
    yield xcase("STR", "constant", "const string k@ = \"hello\";\nfunction int f@(int a) {\n  return ((k@->len * 1000) + cast<int>(k@->txt[a]));\n}\n",
                lit + "int f@(int a) { vfstr@ *k = %s; return ((k->len * 1000) + (int)k->txt[a]); }\n" % ptr, "int", ["int"], [[i] for i in range(5)], strings=True)
    yield invalid("STR", "string-into-int", "function int f@(int a) {\n  var int x = \"abc\";\n  return x;\n}\n")
    yield invalid("STR", "string-plus-int-into-int", "function int f@(int a) {\n  return (\"abc\" + a);\n}\n")
    yield invalid("STR", "index-string-directly", "function int f@(int a) {\n  var string s = \"abc\";\n  return cast<int>(s[a]);\n}\n")
    yield invalid("STR", "unterminated", "function int f@(int a) {\n  var string s = \"abc;\n  return a;\n}\n")


def fam_PCAST(thorough):
    """casts between integers and pointers: every integer type to a pointer and back to int64_t (extension), a pointer to every integer
    type (truncation), round trips through int64_t / uint64_t to a live object, address differences, byte views, pointer-to-pointer casts,
    the implicit conversions towards pointers (pointer -> pointer, unsigned -> pointer, signed -> pointer) and pointer +- int (byte-wise)."""
    for t in INT_NAMES:
        ct = CNAME[t]
        yield xcase("PCAST", "int-to-pointer/%s" % t, "function int64_t f@(%s a) {\n  return cast<int64_t>(cast<byte*>(a));\n}\n" % t,
                    "long f@(%s a) { return (long)(unsigned char *)a; }\n" % ct, "int64_t", [t], vectors([t], 9, 16))
        yield xcase("PCAST", "pointer-to-int/%s" % t, "function %s f@(int64_t a) {\n  return cast<%s>(cast<byte*>(a));\n}\n" % (t, t),
                    "%s f@(long a) { return (%s)(unsigned long)(unsigned char *)a; }\n" % (ct, ct), t, ["int64_t"],
                    [[v] for v in (0, 1, -1, 255, 256, 65535, 65536, 0x7fffffff, 0x80000000, 0xffffffff, 0x123456789, -0x123456789, (1 << 63) - 1, -(1 << 63))])
        yield xcase("PCAST", "implicit-int-to-pointer/%s" % t, "function int64_t f@(%s a) {\n  var byte* p = a;\n  return cast<int64_t>(p);\n}\n" % t,
                    "long f@(%s a) { unsigned char *p = (unsigned char *)a; return (long)p; }\n" % ct, "int64_t", [t], vectors([t], 9, 16))
    for t in ("int64_t", "uint64_t"):
        ct = CNAME[t]
        yield xcase("PCAST", "round-trip-object/%s" % t, "var int g@ = 7;\nfunction int f@(int a) {\n  var %s n = cast<%s>(&g@);\n  var int* p = cast<int*>(n);\n  *p = (*p + a);\n  return g@;\n}\n" % (t, t),
                    "int g@ = 7;\nint f@(int a) { %s n = (%s)&g@; int *p = (int *)n; *p = (*p + a); return g@; }\n" % (ct, ct), "int", ["int"], None, ["g@"], ["g@"])
        yield xcase("PCAST", "round-trip-implicit/%s" % t, "var int g@ = 7;\nfunction int f@(int a) {\n  var %s n = cast<%s>(&g@);\n  var int* p = n;\n  *p = (*p - a);\n  return g@;\n}\n" % (t, t),
                    "int g@ = 7;\nint f@(int a) { %s n = (%s)&g@; int *p = (int *)n; *p = (*p - a); return g@; }\n" % (ct, ct), "int", ["int"], None, ["g@"], ["g@"])
    for et in ("byte", "int16_t", "int", "int64_t", "double"):
        ct = CNAME[et]
        yield xcase("PCAST", "address-difference/%s" % et, "var %s[4] g@;\nfunction int64_t f@(int a, int b) {\n  return (cast<int64_t>(&g@[a]) - cast<int64_t>(&g@[b]));\n}\n" % et,
                    "%s g@[4];\nlong f@(int a, int b) { return ((long)&g@[a] - (long)&g@[b]); }\n" % ct, "int64_t", ["int", "int"], [[i, j] for i in range(4) for j in range(4)], ["g@"], ["g@"])
    for et, n in (("int16_t", 2), ("int", 4), ("int64_t", 8), ("uint32_t", 4)):
        ct = CNAME[et]
        yield xcase("PCAST", "byte-view/%s" % et, "var %s g@;\nfunction int f@(int a, int b) {\n  g@ = cast<%s>(a);\n  var byte* p = cast<byte*>(&g@);\n  return cast<int>(*(p + b));\n}\n" % (et, et),
                    "%s g@;\nint f@(int a, int b) { g@ = (%s)a; unsigned char *p = (unsigned char *)&g@; return (int)(*(p + b)); }\n" % (ct, ct), "int", ["int", "int"],
                    [[v, k] for v in (0x12345678, -2, 255) for k in range(n)], ["g@"], ["g@"])
        yield xcase("PCAST", "byte-store/%s" % et, "var %s g@;\nfunction int64_t f@(int a, int b) {\n  g@ = cast<%s>(0);\n  var byte* p = cast<byte*>(&g@);\n  *(p + b) = cast<byte>(a);\n  return cast<int64_t>(g@);\n}\n" % (et, et),
                    "%s g@;\nlong f@(int a, int b) { g@ = 0; unsigned char *p = (unsigned char *)&g@; *(p + b) = (unsigned char)a; return (long)g@; }\n" % ct, "int64_t", ["int", "int"],
                    [[v, k] for v in (1, 0x80, 0xff) for k in range(n)], ["g@"], ["g@"])
    arr3 = "var int[4] g@ = {10, 20, 30, 40};\n"
    arrc = "int g@[4] = {10, 20, 30, 40};\n"
    vab = [[i, j] for i in range(4) for j in range(4)]
    yield xcase("PCAST", "pointer-to-pointer/explicit", arr3 + "function int f@(int a, int b) {\n  var byte* q = cast<byte*>(&g@[a]);\n  var int* p = cast<int*>(q);\n  *p = (*p + b);\n  return (g@[a] + g@[0]);\n}\n",
                arrc + "int f@(int a, int b) { unsigned char *q = (unsigned char *)&g@[a]; int *p = (int *)q; *p = (*p + b); return (g@[a] + g@[0]); }\n", "int", ["int", "int"], vab, ["g@"], ["g@"])
    yield xcase("PCAST", "pointer-to-pointer/implicit", arr3 + "var int* pa@;\nvar byte* pb@;\nfunction int f@(int a, int b) {\n  pa@ = &g@[a];\n  pb@ = pa@;\n  *pb@ = cast<byte>(b);\n  return g@[a];\n}\n",
                arrc + "int *pa@;\nunsigned char *pb@;\nint f@(int a, int b) { pa@ = &g@[a]; pb@ = (unsigned char *)pa@; *pb@ = (unsigned char)b; return g@[a]; }\n", "int", ["int", "int"], vab, ["g@", "pa@", "pb@"], ["g@"],
                ref="test/lang/test_c3.py test_pointer_coercion")
    yield xcase("PCAST", "pointer-to-struct-pointer", "type struct { int x; int y; } S@;\n" + arr3 + "function int f@(int a, int b) {\n  var S@* s = cast<S@*>(&g@[(a & 2)]);\n  s->y = b;\n  return ((s->x * 1000) + g@[((a & 2) + 1)]);\n}\n",
                "typedef struct { int x; int y; } S@;\n" + arrc + "int f@(int a, int b) { S@ *s = (S@ *)&g@[(a & 2)]; s->y = b; return ((s->x * 1000) + g@[((a & 2) + 1)]); }\n", "int", ["int", "int"], vab, ["g@"], ["g@"])
    # pointer +- int: C3 adds the integer to the address (no scaling: codegenerator.gen_binop on two ptr values)
    for feat, e3, ec in (("pointer-plus-int", "(p + (b * 4))", "(int *)((char *)p + (b * 4))"), ("int-plus-pointer", "((b * 4) + p)", "(int *)((char *)p + (b * 4))"),
                         ("pointer-minus-int", "((p + 12) - (b * 4))", "(int *)(((char *)p + 12) - (b * 4))")):
        yield xcase("PCAST", "arithmetic/" + feat, arr3 + "function int f@(int a, int b) {\n  var int* p = &g@[0];\n  var int* q = %s;\n  *q = (*q + a);\n  return (((g@[0] + (g@[1] * 3)) + (g@[2] * 5)) + (g@[3] * 7));\n}\n" % e3,
                    arrc + "int f@(int a, int b) { int *p = &g@[0]; int *q = %s; *q = (*q + a); return (((g@[0] + (g@[1] * 3)) + (g@[2] * 5)) + (g@[3] * 7)); }\n" % ec, "int", ["int", "int"], vab, ["g@"], ["g@"],
                    ref="test/lang/test_c3.py test_pointer_arithmatic")
    for op in CMPS:
        yield xcase("PCAST", "compare/%s" % op, arr3 + "function int f@(int a, int b) {\n  var int* p = &g@[a];\n  var int* q = &g@[b];\n  if (p %s q) {\n    return 1;\n  }\n  return 0;\n}\n" % op,
                    arrc + "int f@(int a, int b) { int *p = &g@[a]; int *q = &g@[b]; if (p %s q) { return 1; } return 0; }\n" % op, "int", ["int", "int"], vab, ["g@"], ["g@"])
    yield xcase("PCAST", "compare/null-literal", arr3 + "function int f@(int a, int b) {\n  var int* p = 0;\n  if (a > 1) {\n    p = &g@[b];\n  }\n  if (p == 0) {\n    return (0 - 1);\n  }\n  return *p;\n}\n",
                arrc + "int f@(int a, int b) { int *p = 0; if (a > 1) { p = &g@[b]; } if (p == 0) { return (0 - 1); } return *p; }\n", "int", ["int", "int"], vab, ["g@"], ["g@"])
    yield xcase("PCAST", "arithmetic/shorthand-on-pointer", arr3 + "function int f@(int a, int b) {\n  var int* p = &g@[0];\n  p += (b * 4);\n  *p = (*p + a);\n  p -= (b * 4);\n  return (*p + g@[b]);\n}\n",
                arrc + "int f@(int a, int b) { int *p = &g@[0]; p = (int *)((char *)p + (b * 4)); *p = (*p + a); p = (int *)((char *)p - (b * 4)); return (*p + g@[b]); }\n", "int", ["int", "int"], vab, ["g@"], ["g@"])
    yield xcase("PCAST", "pointer-to-pointer/anonymous-structs", "var struct { int x; byte y; } s@;\nfunction int f@(int a, int b) {\n  var struct { int x; byte y; }* p = &s@;\n  var struct { int u; byte v; }* q = p;\n  var struct { int u; }* r = p;\n  q->u = a;\n  q->v = cast<byte>(b);\n  return ((r->u + s@.x) + cast<int>(p->y));\n}\n",
                "struct { int x; unsigned char y; } s@;\nint f@(int a, int b) { s@.x = a; s@.y = (unsigned char)b; return ((s@.x + s@.x) + (int)s@.y); }\n", "int", ["int", "int"], None, ["s@"], [],
                ref="test/lang/test_c3.py test_struct_unequal")
    yield xcase("PCAST", "pointer-to-array", arr3 + "function int f@(int a, int b) {\n  var int[4]* p = &g@;\n  (*p)[a] = b;\n  var int[2]* h = cast<int[2]*>(&g@[2]);\n  return (((*p)[a] + g@[1]) + (*h)[(b & 1)]);\n}\n",
                arrc + "int f@(int a, int b) { int (*p)[4] = &g@; (*p)[a] = b; int (*h)[2] = (int (*)[2])&g@[2]; return (((*p)[a] + g@[1]) + (*h)[(b & 1)]); }\n", "int", ["int", "int"], vab, ["g@"], ["g@"])
    yield xcase("PCAST", "sizeof-pointer", "function int f@(int a) {\n  return ((a + sizeof(int*)) + sizeof(byte*));\n}\n", "int f@(int a) { return ((a + (int)sizeof(int *)) + (int)sizeof(unsigned char *)); }\n", "int", ["int"], [[0], [1]])
    # not C3: a pointer is not silently an integer; pointer + (non-int) integer; pointer <-> floating point
    for feat, body in (("pointer-into-int64", "var int64_t n = &a;\n  return cast<int>(n);"), ("pointer-into-int", "var int n = &a;\n  return n;"),
                       ("pointer-plus-byte", "var byte b = 1;\n  var int* p = (&a + b);\n  return *p;"), ("pointer-plus-int64", "var int64_t b = 1;\n  var int* p = (&a + b);\n  return *p;"),
                       ("double-to-pointer", "var double d = 1.0;\n  var int* p = cast<int*>(d);\n  return a;"), ("pointer-to-double", "var double d = cast<double>(&a);\n  return a;"),
                       ("deref-int", "return *a;"), ("address-of-literal", "var int* p = &2;\n  return a;"), ("struct-to-pointer", "var struct { int x; } s;\n  var int* p = cast<int*>(s);\n  return a;")):
        yield invalid("PCAST", feat, "function int f@(int a) {\n  %s\n}\n" % body)


EXT_SCALARS = ["int", "byte", "int64_t", "double"]


def fam_EXT(thorough):
    """external functions and procedures (declarations without body): result type x parameter type over {void, int, byte, int64_t,
    double, bool} x {int, byte, int64_t, double, bool, int*, string}; call shapes (sequence, nesting, operands, loop, branch,
    short-circuit, for header, switch); implicit conversion of arguments; externals of an imported module.  The call trace (which
    external, argument values, in order) is compared as well as the result."""
    rets = ["void"] + EXT_SCALARS + (["bool", "float", "int16_t", "uint32_t"] if thorough else ["bool"])
    pars = EXT_SCALARS + (["bool", "float", "int16_t", "uint32_t"] if thorough else [])
    for rt in rets:
        for pt in pars:
            x = ext("ext@", 1, rt, [pt])
            cpt = CNAME[pt]
            vec = [[0], [1]] if pt == "bool" else vectors([pt], 5, 8)
            if rt == "void":
                yield xcase("EXT", "signature/void/%s" % pt, "function int f@(%s a) {\n  ext@(a);\n  return 1;\n}\n" % pt, "int f@(%s a) { ext@(a); return 1; }\n" % cpt, "int", [pt], vec, externs=[x])
            elif rt == "bool":
                yield xcase("EXT", "signature/bool/%s" % pt, "function int f@(%s a) {\n  if (ext@(a)) {\n    return 1;\n  }\n  return 0;\n}\n" % pt, "int f@(%s a) { if (ext@(a)) { return 1; } return 0; }\n" % cpt, "int", [pt], vec, externs=[x])
            else:
                yield xcase("EXT", "signature/%s/%s" % (rt, pt), "function %s f@(%s a) {\n  return ext@(a);\n}\n" % (rt, pt), "%s f@(%s a) { return ext@(a); }\n" % (CNAME[rt], cpt), rt, [pt], vec, externs=[x])
    x = ext("ext@", 1, "int", [])
    yield xcase("EXT", "signature/int/none", "function int f@(int a) {\n  return (a + ext@());\n}\n", "int f@(int a) { return (a + ext@()); }\n", "int", ["int"], [[0], [1]], externs=[x])
    x = ext("ext@", 1, "bool", ["bool"])
    yield xcase("EXT", "signature/bool/bool", "function int f@(int a, int b) {\n  if (ext@((a < b))) {\n    return 1;\n  }\n  return 0;\n}\n", "int f@(int a, int b) { if (ext@((a < b))) { return 1; } return 0; }\n", "int", ["int", "int"], externs=[x])
    x = ext("inc@", 2, "void", ["int*"])
    yield xcase("EXT", "signature/void/pointer", "function int f@(int a, int b) {\n  var int v = a;\n  inc@(&v);\n  inc@(&b);\n  inc@(&v);\n  return (v - b);\n}\n",
                "int f@(int a, int b) { int v = a; inc@(&v); inc@(&b); inc@(&v); return (v - b); }\n", "int", ["int", "int"], externs=[x])
    x = ext("peek@", 3, "int", ["int*"])
    yield xcase("EXT", "signature/int/pointer-to-global", "var int[2] g@ = {5, 6};\nfunction int f@(int a, int b) {\n  g@[(a & 1)] = b;\n  return (peek@(&g@[(a & 1)]) + g@[(a & 1)]);\n}\n",
                "int g@[2] = {5, 6};\nint f@(int a, int b) { g@[(a & 1)] = b; int t = peek@(&g@[(a & 1)]); return (t + g@[(a & 1)]); }\n", "int", ["int", "int"], None, ["g@"], ["g@"], externs=[x])
    x = ext("slen@", 4, "int", ["string"])
    yield xcase("EXT", "signature/int/string", "function int f@(int a) {\n  var string s = \"hello\";\n  if (a > 0) {\n    s = \"C3!\";\n  }\n  return (slen@(s) + slen@(\"\"));\n}\n",
                c_strlit("l1@", "hello") + c_strlit("l2@", "C3!") + c_strlit("l3@", "") + "int f@(int a) { vfstr@ *s = (vfstr@ *)&l1@; if (a > 0) { s = (vfstr@ *)&l2@; } int t = slen@(s); return (t + slen@((vfstr@ *)&l3@)); }\n",
                "int", ["int"], [[0], [1]], externs=[x])
    x = ext("put@", 5, "void", ["string", "int"])
    yield xcase("EXT", "signature/void/string-int", "function int f@(int a) {\n  put@(\"w=\", a);\n  put@(\"d=\", (a + 1));\n  return a;\n}\n",
                c_strlit("l1@", "w=") + c_strlit("l2@", "d=") + "int f@(int a) { put@((vfstr@ *)&l1@, a); put@((vfstr@ *)&l2@, (a + 1)); return a; }\n", "int", ["int"], [[0], [7]], externs=[x],
                ref="test/samples/simple/init.c3 (io.print2)")
    # call shapes over: function int ext(int), procedure log(int, byte), function bool tst(int)
    e, l, t = ext("ext@", 1, "int", ["int"]), ext("log@", 2, "void", ["int", "byte"]), ext("tst@", 3, "bool", ["int"])
    shapes = [
        ("sequence", [e, l], "log@(a, 1);\n  log@(b, 2);\n  var int r = ext@(a);\n  log@(r, 3);\n  return r;", "log@(a, 1); log@(b, 2); int r = ext@(a); log@(r, 3); return r;"),
        ("nested", [e], "return ext@(ext@(ext@(a)));", "return ext@(ext@(ext@(a)));"),
        ("operands-left-to-right", [e], "return (ext@(a) - ext@(b));", "int t1 = ext@(a); int t2 = ext@(b); return (t1 - t2);"),
        ("operands-depth-2", [e], "return ((ext@(a) * ext@(1)) - (ext@(b) + ext@(2)));", "int t1 = ext@(a); int t2 = ext@(1); int t3 = ext@(b); int t4 = ext@(2); return ((t1 * t2) - (t3 + t4));"),
        ("arguments-left-to-right", [e, l], "log@(ext@(a), cast<byte>(ext@(b)));\n  return 0;", "int t1 = ext@(a); int t2 = ext@(b); log@(t1, (unsigned char)t2); return 0;"),
        ("comparison-operands", [e], "if (ext@(a) < ext@(b)) {\n    return 1;\n  }\n  return 0;", "int t1 = ext@(a); int t2 = ext@(b); if (t1 < t2) { return 1; } return 0;"),
        ("loop", [e, l], "var int i = 0;\n  var int s = 0;\n  for (i = 0; i < (a & 3); i += 1) {\n    s += ext@((b + i));\n    log@(s, cast<byte>(i));\n  }\n  return s;",
         "int i = 0; int s = 0; for (i = 0; i < (a & 3); i = i + 1) { s = s + ext@((b + i)); log@(s, (unsigned char)i); } return s;"),
        ("while-condition", [t, l], "var int i = a;\n  while (tst@(i)) {\n    log@(i, 0);\n    i += 1;\n  }\n  return i;", "int i = a; while (tst@(i)) { log@(i, 0); i = i + 1; } return i;"),
        ("for-header", [e, t], "var int i = 0;\n  var int s = 0;\n  for (i = ext@(a); tst@(i); i += ext@(b)) {\n    s += i;\n    if (s > 40) {\n      return s;\n    }\n    if (s < (0 - 40)) {\n      return s;\n    }\n  }\n  return s;",
         "int i = 0; int s = 0; for (i = ext@(a); tst@(i); i = i + ext@(b)) { s = s + i; if (s > 40) { return s; } if (s < (0 - 40)) { return s; } } return s;"),
        ("branch", [e, l], "if (a < b) {\n    log@(a, 1);\n  } else {\n    return ext@(b);\n  }\n  return 0;", "if (a < b) { log@(a, 1); } else { return ext@(b); } return 0;"),
        ("short-circuit-and", [t], "if (tst@(a) and tst@(b)) {\n    return 1;\n  }\n  return 0;", "if (tst@(a) && tst@(b)) { return 1; } return 0;"),
        ("short-circuit-or", [t], "if (tst@(a) or tst@(b)) {\n    return 1;\n  }\n  return 0;", "if (tst@(a) || tst@(b)) { return 1; } return 0;"),
        ("short-circuit-value", [t], "var bool r = ((not tst@(a)) or (tst@(b) and tst@((a + b))));\n  if (r) {\n    return 1;\n  }\n  return 0;", "int r = ((!tst@(a)) || (tst@(b) && tst@((a + b)))); if (r) { return 1; } return 0;"),
        ("switch", [e, l], "switch (ext@(a)) {\n    case 1: {\n      log@(1, 1);\n    }\n    case 4: {\n      log@(4, 4);\n      return ext@(b);\n    }\n    default: {\n      log@(b, 0);\n    }\n  }\n  return 0;",
         "switch (ext@(a)) { case 1: { log@(1, 1); } break; case 4: { log@(4, 4); return ext@(b); } break; default: { log@(b, 0); } break; } return 0;"),
        ("argument-literals-coerced", [l], "log@(1, 2);\n  log@((a + 1), 255);\n  return 0;", "log@(1, 2); log@((a + 1), 255); return 0;"),
        ("result-stored-in-global", [e], "gg@ = ext@(a);\n  gg@ += ext@(b);\n  return gg@;", "gg@ = ext@(a); gg@ = gg@ + ext@(b); return gg@;"),
        ("index-from-external", [e], "ga@[(ext@(a) & 3)] = b;\n  return ((ga@[0] + ga@[1]) + (ga@[2] + ga@[3]));", "int t1 = ext@(a); ga@[(t1 & 3)] = b; return ((ga@[0] + ga@[1]) + (ga@[2] + ga@[3]));"),
        ("called-from-internal-function", [e, l], "return (in@(a) - in@(b));", "int t1 = in@(a); int t2 = in@(b); return (t1 - t2);"),
        ("recursion-with-trace", [l], "if (a <= 0) {\n    return b;\n  }\n  log@(a, cast<byte>(b));\n  return f@((a - 1), (b + 1));", "if (a <= 0) { return b; } log@(a, (unsigned char)b); return f@((a - 1), (b + 1));"),
    ]
    for name, xs, b3, bc in shapes:
        pre3 = prec = ""
        gl, cg = [], []
        if "gg@" in b3:
            pre3, prec, gl, cg = "var int gg@ = 3;\n", "int gg@ = 3;\n", ["gg@"], ["gg@"]
        if "ga@" in b3:
            pre3, prec, gl, cg = "var int[4] ga@ = {1, 2, 3, 4};\n", "int ga@[4] = {1, 2, 3, 4};\n", ["ga@"], ["ga@"]
        if "in@" in b3:
            pre3 = "function int in@(int v) {\n  log@(v, 9);\n  return (ext@(v) + 1);\n}\n"
            prec = "int in@(int v) { log@(v, 9); return (ext@(v) + 1); }\n"
        yield xcase("EXT", "shape/" + name, pre3 + "function int f@(int a, int b) {\n  %s\n}\n" % b3, prec + "int f@(int a, int b);\nint f@(int a, int b) { %s }\n" % bc, "int", ["int", "int"], None, gl, cg, externs=xs)
    # implicit conversion of the argument to the parameter type of an external
    types = ALL12 if thorough else SIX + ["double"]
    for t1 in types:
        for t2 in types:
            if t1 == t2 or not implicit_ok(t1, t2):
                continue
            x = ext("ext@", 1, wide(t2), [t2])
            w = wide(t2)
            yield xcase("EXT", "implicit-argument/%s->%s" % (t1, t2), "function %s f@(%s a) {\n  return ext@(a);\n}\n" % (w, t1), "%s f@(%s a) { return ext@((%s)a); }\n" % (CNAME[w], CNAME[t1], CNAME[t2]),
                        w, [t1], vectors([t1], 5, 8), externs=[x])
    # externals declared in an imported module / the same external name in two modules
    lib = "module lib@;\npublic function int ext@(int p0);\npublic function void log@(int p0, byte p1);\n"
    e2, l2 = ext("ext@", 1, "int", ["int"], mod="lib@", declare=False), ext("log@", 2, "void", ["int", "byte"], mod="lib@", declare=False)
    yield xcase("EXT", "module/imported-externals", "import lib@;\nfunction int f@(int a, int b) {\n  lib@.log@(a, 1);\n  return (lib@.ext@(b) + 1);\n}\n",
                "int f@(int a, int b) { log@(a, 1); return (ext@(b) + 1); }\n", "int", ["int", "int"], mods=[lib], externs=[e2, l2])
    lib = "module lib@;\npublic function int ext@(int p0);\npublic function int twice@(int v) {\n  return (ext@(v) + ext@(v));\n}\n"
    yield xcase("EXT", "module/external-used-in-both", "import lib@;\nfunction int f@(int a, int b) {\n  return (lib@.twice@(a) - lib@.ext@(b));\n}\n",
                "int twice@(int v) { int t1 = ext@(v); int t2 = ext@(v); return (t1 + t2); }\nint f@(int a, int b) { int t1 = twice@(a); int t2 = ext@(b); return (t1 - t2); }\n", "int", ["int", "int"], mods=[lib], externs=[e2])
    # not C3
    for feat, body in (("too-many-arguments", "return ext@(a, a);"), ("too-few-arguments", "return ext@();"), ("value-of-procedure", "return log@(a, 1);"),
                       ("function-as-statement", "ext@(a);\n  return a;"), ("struct-argument", "var struct { int x; } s;\n  return ext@(s);"), ("string-for-int", "return ext@(\"abc\");")):
        yield invalid("EXT", feat, "function int ext@(int p0);\nfunction void log@(int p0, byte p1);\nfunction int f@(int a) {\n  %s\n}\n" % body)
    yield invalid("EXT", "declared-twice", "function int ext@(int p0);\nfunction int ext@(int p0);\nfunction int f@(int a) {\n  return a;\n}\n")
    yield invalid("EXT", "struct-parameter", "type struct { int x; } S@;\nfunction int ext@(S@ p0);\nfunction int f@(int a) {\n  return a;\n}\n")
    yield invalid("EXT", "call-of-struct-result", "type struct { int x; } S@;\nfunction S@ ext@(int p0);\nfunction int f@(int a) {\n  ext@(a);\n  return a;\n}\n")
    yield invalid("EXT", "struct-result", "type struct { int x; } S@;\nfunction S@ ext@(int p0);\nfunction int f@(int a) {\n  return a;\n}\n")


def fam_REC(thorough):
    """recursive data types: a struct may refer to itself (or to a struct defined later) through a pointer only
    (test_c3.py test_linked_list / test_infinite_struct / test_mutual_structs)."""
    l3 = "type struct { int x; list@* next; } list@;\n"
    lc = "typedef struct list@ list@;\nstruct list@ { int x; list@ *next; };\n"
    vec = [[a, b] for a in (0, 1, 2, 3, 5) for b in (-1, 0, 4)]
    yield xcase("REC", "linked-list/global-nodes", l3 + "var list@[3] n@;\nfunction int f@(int a, int b) {\n  var int i = 0;\n  for (i = 0; i < 3; i += 1) {\n    n@[i].x = (b + i);\n    n@[i].next = &n@[((i + 1) % 3)];\n  }\n"
                "  var list@* p = &n@[0];\n  for (i = 0; i < (a & 3); i += 1) {\n    p = p->next;\n  }\n  return ((p->x * 100) + p->next->next->x);\n}\n",
                lc + "list@ n@[3];\nint f@(int a, int b) { int i = 0; for (i = 0; i < 3; i = i + 1) { n@[i].x = (b + i); n@[i].next = &n@[((i + 1) % 3)]; }\n"
                "  list@ *p = &n@[0]; for (i = 0; i < (a & 3); i = i + 1) { p = p->next; } return ((p->x * 100) + p->next->next->x); }\n", "int", ["int", "int"], vec, ["n@"], [],
                ref="test/lang/test_c3.py test_linked_list")
    yield xcase("REC", "linked-list/local-nodes", l3 + "function int f@(int a, int b) {\n  var list@ h;\n  var list@ t;\n  h.x = a;\n  h.next = &t;\n  t.x = b;\n  t.next = &h;\n  var list@* p = &h;\n  p = p->next->next->next;\n  return ((p->x * 3) + p->next->x);\n}\n",
                lc + "int f@(int a, int b) { list@ h; list@ t; h.x = a; h.next = &t; t.x = b; t.next = &h; list@ *p = &h; p = p->next->next->next; return ((p->x * 3) + p->next->x); }\n", "int", ["int", "int"], vec,
                ref="test/lang/test_c3.py test_linked_list")
    yield xcase("REC", "linked-list/null-terminated-sum", l3 + "var list@[4] n@;\nfunction int sum@(list@* p) {\n  var int s = 0;\n  while (p != 0) {\n    s += p->x;\n    p = p->next;\n  }\n  return s;\n}\n"
                "function int f@(int a, int b) {\n  var int i = 0;\n  for (i = 0; i < 4; i += 1) {\n    n@[i].x = (b * (i + 1));\n    n@[i].next = &n@[(i + 1)];\n    if (i == (a & 3)) {\n      n@[i].next = 0;\n    }\n  }\n  return sum@(&n@[0]);\n}\n",
                lc + "list@ n@[4];\nint sum@(list@ *p) { int s = 0; while (p != 0) { s = s + p->x; p = p->next; } return s; }\n"
                "int f@(int a, int b) { int i = 0; for (i = 0; i < 4; i = i + 1) { n@[i].x = (b * (i + 1)); n@[i].next = (i < 3) ? &n@[(i + 1)] : 0; if (i == (a & 3)) { n@[i].next = 0; } } return sum@(&n@[0]); }\n",
                "int", ["int", "int"], vec, ["n@"], [])
    t3 = "type struct { int v; node@* l; node@* r; } node@;\n"
    tc = "typedef struct node@ node@;\nstruct node@ { int v; node@ *l; node@ *r; };\n"
    yield xcase("REC", "tree/recursive-sum", t3 + "var node@[3] n@;\nfunction int sum@(node@* p) {\n  if (p == 0) {\n    return 0;\n  }\n  return ((p->v + sum@(p->l)) + (sum@(p->r) * 2));\n}\n"
                "function int f@(int a, int b) {\n  n@[0].v = a;\n  n@[0].l = &n@[1];\n  n@[0].r = &n@[2];\n  n@[1].v = b;\n  n@[1].l = 0;\n  n@[1].r = 0;\n  n@[2].v = 100;\n  n@[2].l = 0;\n  n@[2].r = 0;\n  if (a > 2) {\n    n@[1].l = &n@[2];\n  }\n  return sum@(&n@[0]);\n}\n",
                tc + "node@ n@[3];\nint sum@(node@ *p) { if (p == 0) { return 0; } int t1 = sum@(p->l); int t2 = sum@(p->r); return ((p->v + t1) + (t2 * 2)); }\n"
                "int f@(int a, int b) { n@[0].v = a; n@[0].l = &n@[1]; n@[0].r = &n@[2]; n@[1].v = b; n@[1].l = 0; n@[1].r = 0; n@[2].v = 100; n@[2].l = 0; n@[2].r = 0; if (a > 2) { n@[1].l = &n@[2]; } return sum@(&n@[0]); }\n",
                "int", ["int", "int"], vec, ["n@"], [])
    yield xcase("REC", "mutual/through-pointers", "type struct { int x; B@* other; } A@;\ntype struct { byte y; A@* other; } B@;\nvar A@ a1@;\nvar B@ b1@;\n"
                "function int f@(int a, int b) {\n  a1@.other = &b1@;\n  b1@.other = &a1@;\n  a1@.x = a;\n  b1@.y = cast<byte>(b);\n  return (a1@.other->other->x + cast<int>(a1@.other->other->other->y));\n}\n",
                "typedef struct A@ A@;\ntypedef struct B@ B@;\nstruct A@ { int x; B@ *other; };\nstruct B@ { unsigned char y; A@ *other; };\nA@ a1@;\nB@ b1@;\n"
                "int f@(int a, int b) { a1@.other = &b1@; b1@.other = &a1@; a1@.x = a; b1@.y = (unsigned char)b; return (a1@.other->other->x + (int)a1@.other->other->other->y); }\n", "int", ["int", "int"], vec, ["a1@", "b1@"], [])
    yield xcase("REC", "self/pointer-in-nested-struct", "type struct { int k; struct { outer@* up; int d; } in; } outer@;\nvar outer@ o@;\nfunction int f@(int a, int b) {\n  o@.k = a;\n  o@.in.d = b;\n  o@.in.up = &o@;\n  return ((o@.in.up->in.up->k * 10) + o@.in.up->in.d);\n}\n",
                "typedef struct outer@ outer@;\nstruct outer@ { int k; struct { outer@ *up; int d; } in; };\nouter@ o@;\nint f@(int a, int b) { o@.k = a; o@.in.d = b; o@.in.up = &o@; return ((o@.in.up->in.up->k * 10) + o@.in.up->in.d); }\n",
                "int", ["int", "int"], vec, ["o@"], [])
    yield xcase("REC", "self/array-of-pointers", "type struct { int v; multi@*[2] kid; } multi@;\nvar multi@[2] m@;\nfunction int f@(int a, int b) {\n  m@[0].v = a;\n  m@[1].v = b;\n  m@[0].kid[0] = &m@[1];\n  m@[0].kid[1] = &m@[0];\n  m@[1].kid[0] = &m@[0];\n  m@[1].kid[1] = &m@[1];\n"
                "  return ((m@[0].kid[(a & 1)]->v * 10) + m@[0].kid[(a & 1)]->kid[(b & 1)]->v);\n}\n",
                "typedef struct multi@ multi@;\nstruct multi@ { int v; multi@ *kid[2]; };\nmulti@ m@[2];\nint f@(int a, int b) { m@[0].v = a; m@[1].v = b; m@[0].kid[0] = &m@[1]; m@[0].kid[1] = &m@[0]; m@[1].kid[0] = &m@[0]; m@[1].kid[1] = &m@[1];"
                " return ((m@[0].kid[(a & 1)]->v * 10) + m@[0].kid[(a & 1)]->kid[(b & 1)]->v); }\n", "int", ["int", "int"], vec, ["m@"], [])
    yield xcase("REC", "self/pointer-to-pointer", "type struct { int v; pp@** link; } pp@;\nvar pp@ n@;\nvar pp@* q@;\nfunction int f@(int a, int b) {\n  n@.v = a;\n  q@ = &n@;\n  n@.link = &q@;\n  (*n@.link)->v = ((*n@.link)->v + b);\n  return n@.v;\n}\n",
                "typedef struct pp@ pp@;\nstruct pp@ { int v; pp@ **link; };\npp@ n@;\npp@ *q@;\nint f@(int a, int b) { n@.v = a; q@ = &n@; n@.link = &q@; (*n@.link)->v = ((*n@.link)->v + b); return n@.v; }\n", "int", ["int", "int"], vec, ["n@", "q@"], [])
    # not recursive: one struct type as the type of two members / reached along two paths (check_type marks, and must unmark)
    p3 = "type struct { int x; } P@;\n"
    pc = "typedef struct { int x; } P@;\n"
    why = "typechecker.check_type refuses *recursive* types; test_c3.py test_complex_type nests a named struct"
    yield xcase("REC", "not-recursive/same-type-twice", p3 + "type struct { P@ p; P@ q; } PP@;\nvar PP@ g@;\nfunction int f@(int a, int b) {\n  g@.p.x = a;\n  g@.q.x = b;\n  return ((g@.p.x * 10) + g@.q.x);\n}\n",
                pc + "typedef struct { P@ p; P@ q; } PP@;\nPP@ g@;\nint f@(int a, int b) { g@.p.x = a; g@.q.x = b; return ((g@.p.x * 10) + g@.q.x); }\n", "int", ["int", "int"], vec, ["g@"], [], ref=why)
    yield xcase("REC", "not-recursive/same-type-twice-local", p3 + "type struct { P@ p; P@ q; } PP@;\nfunction int f@(int a, int b) {\n  var PP@ g;\n  g.p.x = a;\n  g.q.x = b;\n  return ((g.p.x * 10) + g.q.x);\n}\n",
                pc + "typedef struct { P@ p; P@ q; } PP@;\nint f@(int a, int b) { PP@ g; g.p.x = a; g.q.x = b; return ((g.p.x * 10) + g.q.x); }\n", "int", ["int", "int"], vec, ref=why)
    yield xcase("REC", "not-recursive/diamond", p3 + "type struct { P@ p; int l; } L@;\ntype struct { byte r; P@ p; } R@;\ntype struct { L@ l; R@ r; } D@;\nvar D@ g@;\nfunction int f@(int a, int b) {\n  g@.l.p.x = a;\n  g@.r.p.x = b;\n  g@.l.l = 3;\n  return ((g@.l.p.x * 10) + (g@.r.p.x + g@.l.l));\n}\n",
                pc + "typedef struct { P@ p; int l; } L@;\ntypedef struct { unsigned char r; P@ p; } R@;\ntypedef struct { L@ l; R@ r; } D@;\nD@ g@;\nint f@(int a, int b) { g@.l.p.x = a; g@.r.p.x = b; g@.l.l = 3; return ((g@.l.p.x * 10) + (g@.r.p.x + g@.l.l)); }\n",
                "int", ["int", "int"], vec, ["g@"], [], ref=why)
    yield xcase("REC", "not-recursive/member-and-array-of-same-type", p3 + "type struct { P@ p; P@[2] q; } PA@;\nvar PA@ g@;\nfunction int f@(int a, int b) {\n  g@.p.x = a;\n  g@.q[1].x = b;\n  return ((g@.p.x * 10) + g@.q[1].x);\n}\n",
                pc + "typedef struct { P@ p; P@ q[2]; } PA@;\nPA@ g@;\nint f@(int a, int b) { g@.p.x = a; g@.q[1].x = b; return ((g@.p.x * 10) + g@.q[1].x); }\n", "int", ["int", "int"], vec, ["g@"], [], ref=why)
    yield xcase("REC", "sizeof-recursive", l3 + "function int f@(int a) {\n  return (a + sizeof(list@));\n}\n", "int f@(int a) { return (a + 12); }\n", "int", ["int"], [[0], [1]])
    for feat, types in (("contains-itself", "type struct { int x; list@ inner; } list@;"), ("contains-array-of-itself", "type struct { int x; list@[2] inner; } list@;"),
                        ("mutual-containment", "type struct { int x; B@ other; } A@;\ntype struct { int x; A@ other; } B@;"),
                        ("containment-cycle-of-3", "type struct { B@ b; } A@;\ntype struct { C@ c; } B@;\ntype struct { int x; A@ a; } C@;"),
                        ("through-nested-anonymous-struct", "type struct { int x; struct { list@ again; } in; } list@;"),
                        ("typedef-of-itself", "type loop@ loop@;"), ("typedef-cycle", "type A@ B@;\ntype B@ A@;\nvar A@ x@;"), ("pointer-typedef-of-itself", "type P@* P@;\nvar P@ x@;"),
                        ("unknown-type-in-struct", "type struct { int x; nosuch@ y; } S@;\nvar S@ s@;")):
        yield invalid("REC", feat, types + "\nfunction int f@(int a) {\n  return a;\n}\n")


def fam_MODX(thorough):
    """several modules: mutual imports, a module spread over two sources, import chains, equal names in two modules, qualified types /
    variables / functions / constants, access rules."""
    vec = small_vectors(["int", "int"])

    def m(feat, main3, mods, c, gl=(), cg=(), ref=None):
        return xcase("MODX", feat, main3, c, "int", ["int", "int"], vec, gl, cg, mods=mods, ref=ref)

    yield m("mutual-import", "import p2@;\npublic function int g@(int x) {\n  return (x + 1);\n}\nfunction int f@(int a, int b) {\n  return (p2@.h@(a) - b);\n}\n",
            ["module p2@;\nimport m;\npublic function int h@(int x) {\n  return (m.g@(x) * 2);\n}\n"], "int g@(int x) { return (x + 1); }\nint h@(int x) { return (g@(x) * 2); }\nint f@(int a, int b) { return (h@(a) - b); }\n",
            ref="docs/reference/lang/c3.rst Modules (pkg1 / pkg2 import each other)")
    yield m("module-in-two-sources", "function int f@(int a, int b) {\n  return (g@(a) + (v@ * b));\n}\n", ["module m;\nvar int v@ = 3;\nfunction int g@(int x) {\n  return (x * 2);\n}\n"],
            "int v@ = 3;\nint g@(int x) { return (x * 2); }\nint f@(int a, int b) { return (g@(a) + (v@ * b)); }\n", ["v@"], ["v@"], ref="docs/reference/lang/c3.rst Modules (can be defined in multiple files)")
    yield m("import-chain", "import a1@;\nfunction int f@(int a, int b) {\n  return (a1@.g@(a) - b);\n}\n",
            ["module a1@;\nimport a2@;\npublic function int g@(int x) {\n  return (a2@.h@(x) + 1);\n}\n", "module a2@;\npublic function int h@(int x) {\n  return (x * 3);\n}\n"],
            "int h@(int x) { return (x * 3); }\nint g@(int x) { return (h@(x) + 1); }\nint f@(int a, int b) { return (g@(a) - b); }\n")
    yield m("import-two-modules", "import a1@;\nimport a2@;\nfunction int f@(int a, int b) {\n  return (a1@.g@(a) - a2@.g@(b));\n}\n",
            ["module a1@;\npublic function int g@(int x) {\n  return (x + 10);\n}\n", "module a2@;\npublic function int g@(int x) {\n  return (x * 3);\n}\n"],
            "int g1@(int x) { return (x + 10); }\nint g2@(int x) { return (x * 3); }\nint f@(int a, int b) { return (g1@(a) - g2@(b)); }\n")
    yield m("same-names-in-two-modules", "import a1@;\nvar int v@ = 1;\nfunction int g@(int x) {\n  return (x + 100);\n}\nfunction int f@(int a, int b) {\n  a1@.v@ += b;\n  v@ += 2;\n  return (((a1@.g@(a) + g@(a)) + v@) + a1@.v@);\n}\n",
            ["module a1@;\npublic var int v@ = 20;\npublic function int g@(int x) {\n  return (x * 3);\n}\n"],
            "int v@ = 1;\nint v1@ = 20;\nint g1@(int x) { return (x * 3); }\nint g@(int x) { return (x + 100); }\nint f@(int a, int b) { v1@ = v1@ + b; v@ = v@ + 2; return (((g1@(a) + g@(a)) + v@) + v1@); }\n", ["v@", "v1@"], ["v@"])
    yield m("qualified-type/variable-parameter-sizeof", "import a1@;\nvar a1@.pair@ pr@;\nfunction int get@(a1@.pair@* p) {\n  return (p->p + cast<int>(p->q));\n}\nfunction int f@(int a, int b) {\n  pr@.p = a;\n  pr@.q = cast<byte>(b);\n  return ((get@(&pr@) + a1@.sum@(&pr@)) + sizeof(a1@.pair@));\n}\n",
            ["module a1@;\npublic type struct { int p; byte q; } pair@;\npublic function int sum@(pair@* x) {\n  return (x->p * 10);\n}\n"],
            "typedef struct { int p; unsigned char q; } pair@;\npair@ pr@;\nint sum@(pair@ *x) { return (x->p * 10); }\nint get@(pair@ *p) { return (p->p + (int)p->q); }\nint f@(int a, int b) { pr@.p = a; pr@.q = (unsigned char)b; return ((get@(&pr@) + sum@(&pr@)) + 5); }\n", ["pr@"], [])
    yield m("qualified-type/typedef-of-int", "import a1@;\nfunction a1@.num@ twice@(a1@.num@ x) {\n  var a1@.num@ r = (x * 2);\n  return r;\n}\nfunction int f@(int a, int b) {\n  return (twice@(a) - b);\n}\n", ["module a1@;\npublic type int num@;\n"],
            "int twice@(int x) { int r = (x * 2); return r; }\nint f@(int a, int b) { return (twice@(a) - b); }\n")
    yield m("qualified-type/local-variable-and-cast", "import a1@;\nfunction int f@(int a, int b) {\n  var a1@.wide@ w = cast<a1@.wide@>(a);\n  w = (w * cast<a1@.wide@>(b));\n  return cast<int>(w);\n}\n", ["module a1@;\npublic type int64_t wide@;\n"],
            "int f@(int a, int b) { long w = (long)a; w = (w * (long)b); return (int)w; }\n")
    yield m("imported-array/written", "import a1@;\nfunction int f@(int a, int b) {\n  a1@.arr@[(a & 1)] = b;\n  a1@.arr@[2] += 3;\n  return ((a1@.arr@[0] + a1@.arr@[1]) + a1@.arr@[2]);\n}\n", ["module a1@;\npublic var int[3] arr@ = {1, 2, 3};\n"],
            "int arr@[3] = {1, 2, 3};\nint f@(int a, int b) { arr@[(a & 1)] = b; arr@[2] = arr@[2] + 3; return ((arr@[0] + arr@[1]) + arr@[2]); }\n", ["arr@"], [])
    yield m("imported-struct-variable/field", "import a1@;\nfunction int f@(int a, int b) {\n  a1@.s@.y = b;\n  return (a1@.s@.x + (a1@.s@.y * a));\n}\n", ["module a1@;\npublic type struct { int x; int y; } S@;\npublic var S@ s@ = {.x=4, .y=5};\n"],
            "typedef struct { int x; int y; } S@;\nS@ s@ = {.x=4, .y=5};\nint f@(int a, int b) { s@.y = b; return (s@.x + (s@.y * a)); }\n", ["s@"], [])
    yield m("imported-pointer-variable/arrow", "import a1@;\nfunction int f@(int a, int b) {\n  a1@.ps@ = &a1@.s@;\n  a1@.ps@->y = b;\n  return (a1@.get@() * a);\n}\n",
            ["module a1@;\npublic type struct { int x; int y; } S@;\npublic var S@ s@;\npublic var S@* ps@;\npublic function int get@() {\n  return s@.y;\n}\n"],
            "typedef struct { int x; int y; } S@;\nS@ s@;\nS@ *ps@;\nint get@(void) { return s@.y; }\nint f@(int a, int b) { ps@ = &s@; ps@->y = b; return (get@() * a); }\n", ["s@", "ps@"], [])
    yield m("procedure-by-reference", "import a1@;\nfunction int f@(int a, int b) {\n  var int x = a;\n  a1@.addto@(&x, b);\n  a1@.addto@(&x, 1);\n  return x;\n}\n", ["module a1@;\npublic function void addto@(int* p, int d) {\n  *p += d;\n}\n"],
            "void addto@(int *p, int d) { *p = *p + d; }\nint f@(int a, int b) { int x = a; addto@(&x, b); addto@(&x, 1); return x; }\n")
    yield m("imported-constant/in-expression", "import a1@;\nfunction int f@(int a, int b) {\n  return ((a * a1@.n@) + b);\n}\n", ["module a1@;\nconst int n@ = (3 * 4);\n"], "int f@(int a, int b) { return ((a * 12) + b); }\n")
    yield m("imported-constant/array-size", "import a1@;\nvar int[a1@.n@] z@;\nfunction int f@(int a, int b) {\n  z@[2] = a;\n  z@[0] = b;\n  return ((z@[2] - z@[0]) + sizeof(int[a1@.n@]));\n}\n", ["module a1@;\nconst int n@ = 3;\n"],
            "int z@[3];\nint f@(int a, int b) { z@[2] = a; z@[0] = b; return ((z@[2] - z@[0]) + 12); }\n", ["z@"], ["z@"])
    yield m("implicit-conversion-across-modules", "import a1@;\nfunction int f@(int a, int b) {\n  var byte c = cast<byte>(a);\n  return cast<int>((a1@.widen@(c) + a1@.widen@(b)));\n}\n", ["module a1@;\npublic function int64_t widen@(int64_t v) {\n  return (v * 3);\n}\n"],
            "long widen@(long v) { return (v * 3); }\nint f@(int a, int b) { unsigned char c = (unsigned char)a; return (int)(widen@((long)c) + widen@((long)b)); }\n")
    yield m("recursion-across-modules", "import a1@;\npublic function int down@(int n, int acc) {\n  if (n <= 0) {\n    return acc;\n  }\n  return a1@.step@((n - 1), (acc + n));\n}\nfunction int f@(int a, int b) {\n  return down@((a & 7), b);\n}\n",
            ["module a1@;\nimport m;\npublic function int step@(int n, int acc) {\n  return m.down@(n, (acc * 2));\n}\n"],
            "int down@(int n, int acc);\nint step@(int n, int acc) { return down@(n, (acc * 2)); }\nint down@(int n, int acc) { if (n <= 0) { return acc; } return step@((n - 1), (acc + n)); }\nint f@(int a, int b) { return down@((a & 7), b); }\n")
    lib = ["module a1@;\nfunction int hid@(int x) {\n  return x;\n}\npublic function int vis@(int x) {\n  return x;\n}\ntype int hnum@;\n"]
    for feat, main3, mods in (("private-function", "import a1@;\nfunction int f@(int a) {\n  return a1@.hid@(a);\n}\n", lib), ("private-type", "import a1@;\nvar a1@.hnum@ z@;\nfunction int f@(int a) {\n  return a;\n}\n", lib),
                              ("undefined-member", "import a1@;\nfunction int f@(int a) {\n  return a1@.nosuch@(a);\n}\n", lib), ("module-not-imported", "function int f@(int a) {\n  return a1@.vis@(a);\n}\n", lib),
                              ("import-of-missing-module", "import nosuch@;\nfunction int f@(int a) {\n  return a;\n}\n", None), ("import-twice", "import a1@;\nimport a1@;\nfunction int f@(int a) {\n  return a1@.vis@(a);\n}\n", lib),
                              ("import-clashes-with-variable", "import a1@;\nvar int a1@;\nfunction int f@(int a) {\n  return a;\n}\n", lib), ("module-as-value", "import a1@;\nfunction int f@(int a) {\n  return (a1@ + a);\n}\n", lib),
                              ("member-of-function", "import a1@;\nfunction int f@(int a) {\n  return a1@.vis@.x;\n}\n", lib), ("call-of-variable", "var int v@;\nfunction int f@(int a) {\n  return v@(a);\n}\n", None),
                              ("same-function-in-two-sources", "function int g@(int x) {\n  return x;\n}\nfunction int f@(int a) {\n  return g@(a);\n}\n", ["module m;\nfunction int g@(int x) {\n  return (x + 1);\n}\n"])):
        yield invalid("MODX", feat, main3, mods)


def fam_KUSE(thorough):
    """constants in use: a constant of every scalar type; constant expressions with casts and floating point; constants as array sizes
    (global, local, struct member, sizeof, 2-d), loop bounds, case labels, indices, shift counts, initial values; definition order."""
    vec = [[v] for v in (0, 1, -3, 7)]
    for t in ALL12:
        w = wide(t)
        v = GI_VALUE[t]
        for form, v3 in (("literal", c3_lit(v)), ("cast", "cast<%s>(%s)" % (t, c3_lit(v)))):
            yield xcase("KUSE", "typed-constant/%s/%s" % (form, t), "const %s k@ = %s;\nfunction %s f@(int a) {\n  return (cast<%s>(k@) + cast<%s>(a));\n}\n" % (t, v3, w, w, w),
                        "%s f@(int a) { return ((%s)(%s)%s + (%s)a); }\n" % (CNAME[w], CNAME[w], CNAME[t], c3_lit(v), CNAME[w]), w, ["int"], vec)
    for t in ALL12:
        v = GI_VALUE[t]
        if not implicit_ok("int", t) and not is_float(t):
            continue
        for op in ("+", "*"):
            e = B(op, K(v, t), P("a", t))
            yield xcase("KUSE", "typed-constant-arithmetic/%s/%s" % (op, t), "const %s k@ = %s;\nfunction %s f@(%s a) {\n  return (k@ %s a);\n}\n" % (t, c3_lit(v), t, t, op),
                        "%s f@(%s a) { return %s; }\n" % (CNAME[t], CNAME[t], c_expr(e)), t, [t], vectors([t], 7, 8))
    yield xcase("KUSE", "typed-constant/literal/bool", "const bool k@ = true;\nfunction int f@(int a) {\n  if (k@) {\n    return (a + 1);\n  }\n  return a;\n}\n", "int f@(int a) { if (1) { return (a + 1); } return a; }\n", "int", ["int"], vec)
    yield xcase("KUSE", "typed-constant/cast/pointer", "const int* k@ = cast<int*>(64);\nfunction int64_t f@(int a) {\n  return (cast<int64_t>(k@) + cast<int64_t>(a));\n}\n", "long f@(int a) { return ((long)(int *)64 + (long)a); }\n", "int64_t", ["int"], vec)
    exprs = [("cast-double-to-int", "int", "cast<int>(7.9)", "(int)7.9"), ("cast-int-to-double", "double", "cast<double>(3)", "(double)3"), ("cast-to-byte-wraps", "byte", "cast<byte>(((2 + 99) + 200))", "(unsigned char)((2 + 99) + 200)"),
             ("double-division", "double", "(7.0 / 2.0)", "(7.0 / 2.0)"), ("double-remainder", "double", "(7.5 % 2.0)", "__builtin_fmod(7.5, 2.0)"), ("double-times-int", "double", "(2.5 * 3)", "(2.5 * 3)"),
             ("int-over-double", "double", "(7 / 2.0)", "(7 / 2.0)"), ("double-arithmetic", "double", "((1.5 + 2.25) - (0.5 * 4.0))", "((1.5 + 2.25) - (0.5 * 4.0))"),
             ("int-literal-into-double", "double", "3", "3.0"), ("int-expression-into-float", "float", "(7 / 2)", "(float)(7 / 2)"), ("double-into-float", "float", "2.7", "(float)2.7"),
             ("cast-inside-arithmetic", "int", "(cast<int>(7.9) * 3)", "((int)7.9 * 3)"), ("byte-literal-wraps", "byte", "300", "(unsigned char)300"),
             ("reference-casted", "int", "cast<int>(kd@)", "(int)2.75")]
    for name, t, e3, ec in exprs:
        w = wide(t)
        pre = "const double kd@ = 2.75;\n" if "kd@" in e3 else ""
        yield xcase("KUSE", "expression/%s" % name, pre + "const %s k@ = %s;\nfunction %s f@(int a) {\n  return (cast<%s>(k@) + cast<%s>(a));\n}\n" % (t, e3, w, w, w),
                    "%s f@(int a) { return ((%s)(%s)%s + (%s)a); }\n" % (CNAME[w], CNAME[w], CNAME[t], ec, CNAME[w]), w, ["int"], vec, ref="test/lang/test_c3.py test_constant (cast<byte>(2 + 99))" if "byte" in name else None)
    # operators of the expression grammar other than + - * / % inside constants
    for name, t, e3, ec in (("shift-left", "int", "(3 << 2)", "(3 << 2)"), ("shift-right", "int", "(12 >> 2)", "(12 >> 2)"), ("bit-and", "int", "(6 & 3)", "(6 & 3)"), ("bit-or", "int", "(6 | 3)", "(6 | 3)"),
                            ("bit-xor", "int", "(6 ^ 3)", "(6 ^ 3)"), ("unary-minus", "int", "(-5)", "(-5)"), ("unary-plus", "int", "(+5)", "(+5)"), ("sizeof", "int", "sizeof(int64_t)", "8"),
                            ("comparison", "bool", "(3 < 4)", "(3 < 4)"), ("logical-and", "bool", "(true and false)", "(1 && 0)"), ("logical-not", "bool", "(not true)", "(!1)")):
        if t == "bool":
            yield xcase("KUSE", "operator/%s" % name, "const bool k@ = %s;\nfunction int f@(int a) {\n  if (k@) {\n    return (a + 1);\n  }\n  return a;\n}\n" % e3, "int f@(int a) { if (%s) { return (a + 1); } return a; }\n" % ec, "int", ["int"], vec)
        else:
            yield xcase("KUSE", "operator/%s" % name, "const int k@ = %s;\nfunction int f@(int a) {\n  return (a + k@);\n}\n" % e3, "int f@(int a) { return (a + %s); }\n" % ec, "int", ["int"], vec)
    # a constant expression is typed like any other expression: arithmetic on byte constants is arithmetic in byte (context.get_common_type:
    # byte + byte -> byte), a value converted to float has single precision -- whatever the evaluated constant is used for
    kb = "const byte kb@ = 200;\nconst byte kc@ = 250;\n"
    for name, e3, val in (("add", "(kb@ + kb@)", 144), ("mul", "(kb@ * kc@)", 80), ("sub", "(kb@ - kc@)", 206), ("cast-operands", "(cast<byte>(200) + cast<byte>(100))", 44), ("add-then-divide", "((kb@ + kc@) / 2)", 97),
                          ("negate", "(-kb@)", 56), ("negate-cast", "(10 + -cast<byte>(3))", 263), ("negate-then-add", "(-kc@ + kb@)", 206)):
        for use, c3, c in (("int-constant", "const int k@ = %s;\nfunction int f@(int a) {\n  return (a + k@);\n}\n" % e3, "int f@(int a) { return (a + %d); }\n" % val),
                           ("global-initial-value", "var int g@ = %s;\nfunction int f@(int a) {\n  return (a + g@);\n}\n" % e3, "int g@ = %d;\nint f@(int a) { return (a + g@); }\n" % val),
                           ("array-size", "function int f@(int a) {\n  return (a + sizeof(byte[%s]));\n}\n" % e3, "int f@(int a) { return (a + %d); }\n" % val)):
            cs = xcase("KUSE", "typed-evaluation/byte-%s/%s" % (name, use), kb + c3, c, "int", ["int"], vec, ["g@"] if "g@" in c else [], ["g@"] if "g@" in c else [])
            cs["locus"] = "constant-expression/arithmetic-in-byte"
            yield cs
    kf = "const float kf@ = 0.1;\n"
    for name, e3, ec in (("float-constant-into-double", "kf@", "(double)0.1f"), ("cast-to-float", "cast<float>(0.1)", "(double)(float)0.1"), ("float-times-int", "(kf@ * 3)", "(double)(0.1f * (float)3)"),
                         ("float-plus-float", "(kf@ + cast<float>(0.7))", "(double)(0.1f + 0.7f)")):
        for use, c3, c in (("double-constant", "const double k@ = %s;\nfunction double f@(int a) {\n  return (k@ + cast<double>(a));\n}\n" % e3, "double f@(int a) { return (%s + (double)a); }\n" % ec),
                           ("global-initial-value", "var double g@ = %s;\nfunction double f@(int a) {\n  return (g@ + cast<double>(a));\n}\n" % e3, "double g@ = %s;\ndouble f@(int a) { return (g@ + (double)a); }\n" % ec)):
            cs = xcase("KUSE", "typed-evaluation/%s/%s" % (name, use), kf + c3, c, "double", ["int"], vec, ["g@"] if "g@" in c else [], ["g@"] if "g@" in c else [])
            cs["locus"] = "constant-expression/single-precision"
            yield cs
    n3 = "const int n@ = (3 * 4);\nconst int k@ = 2;\n"
    uses = [("global-array-size", "var int[n@] z@;\n", "int z@[12];\n", "z@[11] = a;\n  z@[0] = 1;\n  return (z@[11] + z@[0]);", "z@[11] = a; z@[0] = 1; return (z@[11] + z@[0]);", ["z@"]),
            ("global-array-size-expression", "var int[(n@ + k@)] z@;\n", "int z@[14];\n", "z@[13] = a;\n  z@[0] = 1;\n  return ((z@[13] + z@[0]) + sizeof(int[(n@ + k@)]));", "z@[13] = a; z@[0] = 1; return ((z@[13] + z@[0]) + 56);", ["z@"]),
            ("local-array-size", "", "", "var int[n@] x;\n  x[11] = a;\n  x[0] = 1;\n  return (x[11] + x[0]);", "int x[12]; x[11] = a; x[0] = 1; return (x[11] + x[0]);", []),
            ("struct-member-array-size", "type struct { byte h; int[k@] m; byte t; } S@;\nvar S@ s@;\n", "typedef struct { unsigned char h; int m[2]; unsigned char t; } S@;\nS@ s@;\n",
             "s@.h = 1;\n  s@.t = 2;\n  s@.m[1] = a;\n  s@.m[0] = 5;\n  return (((s@.m[1] + s@.m[0]) + cast<int>((s@.h + s@.t))) + sizeof(S@));", "s@.h = 1; s@.t = 2; s@.m[1] = a; s@.m[0] = 5; return (((s@.m[1] + s@.m[0]) + (int)(unsigned char)(s@.h + s@.t)) + 10);", []),
            ("two-dimensional-size", "var int[k@][n@] z@;\n", "int z@[12][2];\n", "z@[11][1] = a;\n  z@[0][0] = 1;\n  return ((z@[11][1] + z@[0][0]) + sizeof(int[k@][n@]));", "z@[11][1] = a; z@[0][0] = 1; return ((z@[11][1] + z@[0][0]) + 96);", ["z@"]),
            ("sizeof-array", "", "", "return (a + sizeof(byte[n@]));", "return (a + 12);", []),
            ("loop-bound", "", "", "var int i = 0;\n  var int s = 0;\n  for (i = 0; i < n@; i += k@) {\n    s += (a + i);\n  }\n  return s;", "int i = 0; int s = 0; for (i = 0; i < 12; i = i + 2) { s = s + (a + i); } return s;", []),
            ("case-label", "", "", "switch ((a & 3)) {\n    case k@: {\n      return 20;\n    }\n    case (k@ + 1): {\n      return 30;\n    }\n    default: {\n      return a;\n    }\n  }\n  return 0;",
             "switch ((a & 3)) { case 2: { return 20; } break; case 3: { return 30; } break; default: { return a; } break; } return 0;", []),
            ("index", "var int[4] z@ = {5, 6, 7, 8};\n", "int z@[4] = {5, 6, 7, 8};\n", "z@[k@] = a;\n  return (z@[k@] + z@[(k@ + 1)]);", "z@[2] = a; return (z@[2] + z@[3]);", ["z@"]),
            ("shift-count", "", "", "return ((a << k@) + (n@ >> k@));", "return ((int)((unsigned)a << 2) + (12 >> 2));", []),
            ("initial-value-of-global", "var int g@ = (n@ * k@);\nvar byte[2] h@ = {n@, (n@ + 250)};\n", "int g@ = 24;\nunsigned char h@[2] = {12, 6};\n", "return ((g@ + cast<int>(h@[0])) + (cast<int>(h@[1]) * a));", "return ((g@ + (int)h@[0]) + ((int)h@[1] * a));", ["g@", "h@"]),
            ("initial-value-of-local", "", "", "var int x = (n@ - k@);\n  var int64_t y = n@;\n  return (x + cast<int>((y * cast<int64_t>(a))));", "int x = 10; long y = 12; return (x + (int)(y * (long)a));", []),
            ("argument-and-return", "function int id@(int v) {\n  return (v + k@);\n}\n", "int id@(int v) { return (v + 2); }\n", "return (id@(n@) * a);", "return (id@(12) * a);", []),
            ("comparison", "", "", "if (a < k@) {\n    return n@;\n  }\n  return k@;", "if (a < 2) { return 12; } return 2;", [])]
    for name, g3, gc, b3, bc, cg in uses:
        yield xcase("KUSE", "use/%s" % name, n3 + g3 + "function int f@(int a) {\n  %s\n}\n" % b3, gc + "int f@(int a) { %s }\n" % bc, "int", ["int"], [[0], [1], [2], [3], [-3], [7]], cg, cg)
    yield xcase("KUSE", "order/used-before-definition", "function int f@(int a) {\n  return (a + k2@);\n}\nconst int k2@ = (k1@ * 2);\nconst int k1@ = 4;\nvar int[k2@] late@;\n", "int late@[8];\nint f@(int a) { return (a + 8); }\n", "int", ["int"], vec, ["late@"], ["late@"])
    yield xcase("KUSE", "order/chain-of-3", "const int k1@ = 2;\nconst int k2@ = (k1@ + k1@);\nconst int k3@ = (k2@ * k2@);\nfunction int f@(int a) {\n  return ((a * k3@) + k2@);\n}\n", "int f@(int a) { return ((a * 16) + 4); }\n", "int", ["int"], vec)
    yield xcase("KUSE", "several-in-one-definition", "const int p@ = 3, q@ = (p@ + 1);\nfunction int f@(int a) {\n  return ((a * p@) + q@);\n}\n", "int f@(int a) { return ((a * 3) + 4); }\n", "int", ["int"], vec)
    yield xcase("KUSE", "local-hides-constant", "const int k@ = 5;\nfunction int f@(int a) {\n  var int k@ = (a + 1);\n  return (k@ * 2);\n}\n", "int f@(int a) { int k = (a + 1); return (k * 2); }\n", "int", ["int"], vec)
    for feat, decl in (("constant-cycle", "const int p@ = (q@ + 1);\nconst int q@ = (p@ + 1);"), ("constant-from-variable", "var int v@;\nconst int p@ = (v@ + 1);"), ("constant-of-itself", "const int p@ = (p@ + 1);"),
                       ("double-into-int-constant", "const int p@ = (7 / 2.0);"), ("array-size-from-variable", "var int v@ = 3;\nvar int[v@] z@;"), ("assignment-to-constant", "const int p@ = 1;\nfunction void s@() {\n  p@ = 2;\n}"),
                       ("address-of-constant", "const int p@ = 1;\nfunction void s@() {\n  var int* q = &p@;\n}"), ("constant-defined-twice", "const int p@ = 1;\nconst int p@ = 2;"),
                       ("constant-from-call", "function int g@() {\n  return 1;\n}\nconst int p@ = g@();"),
                       ("case-label-not-an-integer", "function int s@(int a) {\n  switch (a) {\n    case 2.5: {\n      return 1;\n    }\n    default: {\n      return 0;\n    }\n  }\n  return 2;\n}"),
                       ("case-label-from-variable", "function int s@(int a) {\n  switch (a) {\n    case a: {\n      return 1;\n    }\n    default: {\n      return 0;\n    }\n  }\n  return 2;\n}")):
        # (a constant is evaluated when it is used)
        yield invalid("KUSE", feat, decl + "\nfunction int f@(int a) {\n  return %s;\n}\n" % ("(a + p@)" if "const int p@" in decl and "function" not in decl.replace("function int g@", "") else "a"))


def fam_COERCE(thorough):
    """the places where the type checker converts implicitly, over the type pairs of `implicit_ok` (accepted) and its complement (must be
    refused): local initialiser, shorthand assignment, array index, switch selector, operands of a comparison in if / while / for
    position, comparison with a literal; what a condition may be."""
    types = ALL12
    for t1 in types:
        for t2 in types:
            if t1 == t2:
                continue
            if implicit_ok(t1, t2):
                yield case("COERCE", "local-initialiser/%s->%s" % (t1, t2), simple(t2, [("a", t1)], [("var", "x", t2, IMP(P("a", t1), t2)), ("ret", P("x", t2))]), k=7)
            elif not (is_int(t1) and is_int(t2) and INTS[t1] == INTS[t2]):
                yield invalid("COERCE", "not-implicit/%s->%s" % (t1, t2), "function %s f@(%s a) {\n  return a;\n}\n" % (t2, t1))
    six = INT_NAMES if thorough else SIX
    for t1 in six:
        for t2 in six:
            if same_type(t1, t2) or not implicit_ok(t2, t1):
                continue
            for op in ("+", "&") if not thorough else AUGOPS:
                x = P("x", t1)
                yield case("COERCE", "shorthand/%s=/%s/%s" % (op, t1, t2), simple(t1, [("a", t1), ("b", t2)], [("var", "x", t1, P("a", t1)), ("aug", op, x, IMP(P("b", t2), t1)), ("ret", x)]), k=5, cap=25)
    AT = ("arr", "int", 4)
    for t in INT_NAMES:
        if implicit_ok(t, "int"):
            yield case("COERCE", "index/%s" % t, {"globals": [("z@", AT, [K(5, "int"), K(6, "int"), K(7, "int"), K(8, "int")])], "funcs": [fn("int", [("a", t)], [("ret", ("idx", P("z@", AT), IMP(P("a", t), "int"), "int"))])]},
                       vecs=[[0], [1], [2], [3]])
        else:
            yield invalid("COERCE", "index/%s" % t, "var int[4] z@;\nfunction int f@(%s a) {\n  return z@[a];\n}\n" % t)
        if same_type(t, "int"):
            yield case("COERCE", "switch-selector/%s" % t, simple("int", [("a", t)], [("switch", P("a", t), [(0, [("ret", K(10, "int"))]), (1, [("ret", K(20, "int"))]), (5, [("ret", K(30, "int"))])], [("ret", K(40, "int"))]), ("ret", K(0, "int"))]),
                       vecs=[[0], [1], [2], [5], [-1]])
        else:
            yield invalid("COERCE", "switch-selector/%s" % t, "function int f@(%s a) {\n  switch (a) {\n    case 1: {\n      return 1;\n    }\n    default: {\n      return 0;\n    }\n  }\n  return 2;\n}\n" % t)
    for t1 in six + ["double"]:
        for t2 in six + ["double"]:
            if t1 == t2:
                continue
            a, b = P("a", t1), P("b", t2)
            for op in ("<", "==") if not thorough else CMPS:
                c = mixed_bin(op, a, b)
                if c is None:
                    continue
                ps = [("a", t1), ("b", t2)]
                yield case("COERCE", "condition/if/%s/%s/%s" % (op, t1, t2), simple("int", ps, [("if", c, [("ret", K(1, "int"))], [("ret", K(2, "int"))])]), k=5, cap=25)
                if op == "<" and is_int(t1) and is_int(t2):
                    # a loop whose condition compares a counter of type t1 with a bound of type t2 (bound masked to 0..3)
                    one = K(1, t1)
                    body = [("var", "i", t1, K(0, t1)), ("var", "n", "int", K(0, "int")),
                            ("while", mixed_bin("<", P("i", t1), B("&", b, K(3, t2))), [("aug", "+", P("i", t1), one), ("aug", "+", P("n", "int"), K(1, "int"))]), ("ret", P("n", "int"))]
                    yield case("COERCE", "condition/while/%s/%s/%s" % (op, t1, t2), simple("int", [("b", t2)], body), k=7)
    for t in ALL12:
        a = P("a", t)
        for op in ("<", "==", ">="):
            for v in (3, 200):
                c = mixed_bin(op, a, K(v, "int"))
                if c is None:
                    continue
                yield case("COERCE", "condition/literal/%s/%s" % (op, t), simple("int", [("a", t)], [("var", "n", "int", K(0, "int")), ("if", c, [("set", P("n", "int"), K(1, "int"))], []),
                                                                                                  ("for", ("set", P("n", "int"), P("n", "int")), ("and", c, CMP("<", P("n", "int"), K(3, "int")), "bool"), ("aug", "+", P("n", "int"), K(1, "int")), []),
                                                                                                  ("ret", P("n", "int"))]), k=9)
    # a condition is a bool: nothing else converts to it, and a bool converts to nothing
    for t in ("int", "byte", "int64_t", "double", "int*"):
        for feat, stmt in (("if", "if (a) {\n    return 1;\n  }"), ("while", "while (a) {\n    return 1;\n  }"), ("not", "if (not a) {\n    return 1;\n  }"), ("and", "if ((a == a) and a) {\n    return 1;\n  }")):
            yield invalid("COERCE", "condition-not-bool/%s/%s" % (feat, t), "function int f@(%s a) {\n  %s\n  return 0;\n}\n" % (t, stmt))
    for feat, body in (("arithmetic-as-condition", "if ((a & 1)) {\n    return 1;\n  }\n  return 0;"), ("bool-into-int", "var int x = (a < 3);\n  return x;"), ("int-into-bool", "var bool x = a;\n  return 0;"),
                       ("bool-plus-int", "var bool x = (a < 3);\n  return (x + 1);"), ("bool-compared-with-int", "var bool x = (a < 3);\n  if (x == 1) {\n    return 1;\n  }\n  return 0;"),
                       ("struct-plus-int", "var struct { int x; } s;\n  return (s + a);"),
                       ("expression-as-statement", "2;\n  return a;"), ("assignment-to-a-sum", "(a + 1) = 2;\n  return a;"), ("function-as-value", "return (f@ + 1);"),
                       ("no-such-field", "var struct { int x; } s;\n  s.z = 2;\n  return a;"), ("field-of-int", "a.z = 2;\n  return a;"), ("undefined-identifier", "return (a + nosuch@);"),
                       ("undefined-type", "var nosuch@ x;\n  return a;"), ("variable-defined-twice", "var int x;\n  var int x;\n  return a;"), ("assign-struct", "var struct { int x; } s;\n  var struct { int x; } t;\n  s = t;\n  return a;")):
        yield invalid("COERCE", feat, "function int f@(int a) {\n  %s\n}\n" % body)
    yield invalid("COERCE", "return-nothing-from-function", "function int f@(int a) {\n  return;\n}\n")
    yield invalid("COERCE", "return-value-from-void", "function void p@() {\n  return 1;\n}\nfunction int f@(int a) {\n  return a;\n}\n")
    yield invalid("COERCE", "missing-return", "function int f@(int a) {\n  a = 1;\n}\n")
    yield invalid("COERCE", "switch-without-default", "function int f@(int a) {\n  switch (a) {\n    case 1: {\n      return 1;\n    }\n  }\n  return 0;\n}\n")
    # bool is usable where a bool is wanted: equality of bools, bool arguments
    yield xcase("COERCE", "bool/cast-to-int", "function int f@(int a, int b) {\n  return (cast<int>((a < b)) + 1);\n}\n", "int f@(int a, int b) { return ((int)(a < b) + 1); }\n", "int", ["int", "int"])
    yield xcase("COERCE", "bool/cast-from-int", "function int f@(int a, int b) {\n  var bool x = cast<bool>((a & 1));\n  if (x) {\n    return b;\n  }\n  return 0;\n}\n", "int f@(int a, int b) { int x = (a & 1); if (x) { return b; } return 0; }\n", "int", ["int", "int"])
    yield xcase("COERCE", "bool/equality-of-bools", "function int f@(int a, int b) {\n  var bool x = (a < 3);\n  var bool y = (b < 3);\n  if (x == y) {\n    return 1;\n  }\n  return 0;\n}\n",
                "int f@(int a, int b) { int x = (a < 3); int y = (b < 3); if (x == y) { return 1; } return 0; }\n", "int", ["int", "int"])


def all_cases(tier, seed=0):
    thorough = tier != "quick"
    out = []
    out += list(fam_E1())
    out += list(fam_CAST())
    out += list(fam_W())
    out += list(fam_LIT())
    out += list(fam_ASSOC())
    out += list(fam_COND(thorough))
    out += list(fam_S(thorough))
    out += list(fam_A(thorough))
    out += list(fam_X(thorough))
    out += list(fam_CONST(thorough))
    out += list(fam_MOD())
    for fam in (fam_GI, fam_STR, fam_PCAST, fam_EXT, fam_REC, fam_MODX, fam_KUSE, fam_COERCE):
        out += list(fam(thorough))
    if thorough:
        out += list(fam_E2(INT_NAMES))
        out += list(fam_E3(["int", "byte", "int8_t", "int16_t", "int64_t", "uint16_t", "uint32_t", "uint64_t"]))
        out += list(fam_E2M(types=["int", "byte", "int8_t", "int16_t", "int64_t", "uint16_t", "uint32_t", "uint64_t"]))
        out += list(fam_E2M(types=["int16_t", "uint32_t", "int8_t", "byte", "int64_t"], pairs=(("+", "*"), ("|", "-"), (">>", "+"), ("*", "<="))))
        out += list(fam_E2F(list(dict.fromkeys(["int", "byte", "int64_t"] + ["int8_t", "uint16_t", "uint64_t", "int16_t", "uint32_t"][seed % 5:][:1]))))
        for ct in ("byte", "int8_t", "int64_t", "uint64_t"):
            out += list(fam_COND(True, ct))
        out += list(fam_CASTCHAIN(INT_NAMES + ["float", "double"]))
    else:
        # complete for three types and one seed-selected root operator, plus every (inner, root) pair once for int
        out += list(fam_E2(["int", "byte", "int8_t"], roots=[BINOPS[seed % 10]]))
        out += list(fam_E2(["int"], roots=[o for o in BINOPS if o != BINOPS[seed % 10]], inner=["+", "/", ">>"]))
        out += list(fam_E2M(types=["int", "byte", "int8_t", "uint16_t"], pairs=(("+", "/"), ("*", ">>"), ("-", "<"))))
        out += list(fam_E3(["int", "byte", "int8_t"][seed % 3:][:1]))
        out += list(fam_CASTCHAIN(types=["int", "byte", "int8_t", "uint16_t", "int64_t"]))
    seen = set()
    uniq = []
    for c in out:
        key = (c["c3"], c["src"])
        if key not in seen:
            seen.add(key)
            uniq.append(c)
    return uniq
