"""asmnorm - per-ISA normalisers turning (a) what ppci prints for an instruction object and (b) the text of a reference
disassembler into the same canonical form  [(mnemonic, [operand, ...]), ...]  (a list: ppci pseudo instructions and
prefixes decode to more than one reference instruction).

Canonical operands
    ("r", bank, n)        register: bank is a short string ("x", "f", "r", "r64", "xmm", ...), n the architectural number
    int                   immediate / displacement (canonicalised modulo the ISA's field width where the syntaxes differ)
    ("m", ...)            memory operand, ISA specific tuple of canonical operands
    ("rs", frozenset)     register set
    ("w", text)           a bare keyword that is neither register nor number (CSR name, coprocessor, shift name)
    L                     a label on the ppci side: matches whatever the reference shows at that position (relocations: C11)

Soundness rules implemented here
  * the ppci side is tokenised by walking the instruction's `Syntax` (literals vs operand values) - the concatenation must be
    exactly `str(instruction)`, otherwise the instance is unparsed;
  * register *names* are mapped to numbers through tables written from the architecture manuals in this file, never through
    ppci's `Register.num`;
  * anything that is not understood raises `Unparsed` - the caller counts the instance as unclassified; it is never a violation;
  * the alias tables only contain identities documented in the ISA manuals / standard assembler pseudo-instruction lists
    (cited next to each table).
"""
import re

L = ("L",)


class Unparsed(Exception):
    pass


# ------------------------------------------------------------------ tokens

_LEX = re.compile(r"\s*(?:(0[xX][0-9a-fA-F]+|\d+)(?![A-Za-z_])|([A-Za-z_][A-Za-z0-9_]*(?:\.[A-Za-z0-9_]+)*)|(\S))")


def lex(text):
    """Tokens of a reference text: ("n", int) ("w", lowercase word) ("g", char)."""
    out = []
    pos = 0
    text = text.strip()
    while pos < len(text):
        m = _LEX.match(text, pos)
        if not m:
            raise Unparsed("lex: %r" % text[pos:pos + 10])
        if m.group(1) is not None:
            out.append(("n", int(m.group(1), 0) if m.group(1)[:2].lower() == "0x" else int(m.group(1), 10)))
        elif m.group(2) is not None:
            out.append(("w", m.group(2).lower()))
        else:
            out.append(("g", m.group(3)))
        pos = m.end()
    return out


def ppci_tokens(ins):
    """Token list of what ppci prints, by walking the syntax: [(kind, value, src)] with src = index of the top-level operand
    a token came from (None for literals).  Kinds: w n g L sp.  Raises Unparsed when str(ins) is not the rendered syntax."""
    from ppci.arch.encoding import Operand
    from ppci.arch.registers import Register
    parts = []
    toks = []

    def walk(obj, src):
        syn = type(obj).syntax
        if not syn:
            raise Unparsed("no syntax")
        k = -1
        for el in syn.syntax:
            if isinstance(el, Operand):
                k += 1
                s = k if src is None else src
                val = el.__get__(obj)
                if el.is_constructor if hasattr(el, "is_constructor") else False:
                    walk(val, s)
                    continue
                text = str(val)
                parts.append(text)
                if isinstance(val, bool):
                    raise Unparsed("bool operand")
                if isinstance(val, int):
                    toks.append(("n", val, s))
                elif isinstance(val, Register):
                    toks.append(("w", text.lower(), s))
                elif isinstance(val, str):
                    toks.append(("L", val, s))
                else:
                    for t in lex(text):
                        toks.append(t + (s,))
            else:
                parts.append(el)
                if el.isspace():
                    toks.append(("sp", None, src))
                elif len(el) == 1 and not el.isalnum() and el != "_":
                    toks.append(("g", el, src))
                else:
                    toks.append(("w", el.lower(), src))

    walk(ins, None)
    if "".join(parts) != str(ins):
        raise Unparsed("str() is not the rendered syntax")
    return toks


def split_mnemonic(toks):
    """(mnemonic, rest) - ppci side: the leading literal tokens up to the first blank or operand."""
    mn = []
    i = 0
    while i < len(toks):
        k, v, src = toks[i]
        if k == "sp" or src is not None:
            break
        if k not in ("w", "g"):
            break
        mn.append(v)
        i += 1
    return "".join(mn), toks[i:]


_OPEN = {"(": ")", "[": "]", "{": "}"}
_ATOM = ("w", "n", "L")


def split_operands(toks, soft=True):
    """Split a token list (2- or 3-tuples) at top-level commas; on the ppci side (soft=True) also where two atoms meet
    (with or without a blank between them).  Blanks are dropped."""
    out = [[]]
    depth = 0
    prev = None
    pending_space = False
    for t in toks:
        k, v = t[0], t[1]
        if k == "sp":
            pending_space = True
            continue
        if k == "g" and v in _OPEN:
            depth += 1
        elif k == "g" and v in _OPEN.values():
            depth -= 1
        if k == "g" and v == "," and depth == 0:
            out.append([])
            prev = None
            pending_space = False
            continue
        if soft and depth == 0 and prev is not None and prev[0] in _ATOM and k in _ATOM:
            out.append([])
        out[-1].append(t)
        prev = t
        pending_space = False
    if out == [[]]:
        return []
    return out


def remake(like, mn, ops):
    """A sequence element with new content; ppci-side elements (3-tuples) get an empty provenance."""
    if len(like) == 3:
        return (mn, ops, [frozenset()] * len(ops))
    return (mn, ops)


def signed(v, bits):
    v &= (1 << bits) - 1
    return v - (1 << bits) if v >> (bits - 1) else v


class Cursor:
    """Tiny recursive-descent helper over 2-tuples."""

    def __init__(self, toks):
        self.t = [(x[0], x[1]) for x in toks]
        self.i = 0

    def peek(self, k=0):
        return self.t[self.i + k] if self.i + k < len(self.t) else (None, None)

    def next(self):
        t = self.peek()
        self.i += 1
        return t

    def accept(self, kind, val=None):
        t = self.peek()
        if t[0] == kind and (val is None or t[1] == val):
            self.i += 1
            return t
        return None

    def expect(self, kind, val=None):
        t = self.accept(kind, val)
        if t is None:
            raise Unparsed("expected %s %r at %r" % (kind, val, self.t[self.i:self.i + 3]))
        return t

    def done(self):
        return self.i >= len(self.t)

    def number(self):
        """[#|$] [+|-] n   | L"""
        save = self.i
        self.accept("g", "#")
        if self.accept("L"):
            return L
        neg = False
        if self.accept("g", "-"):
            neg = True
        elif self.accept("g", "+"):
            pass
        t = self.accept("n")
        if t is None:
            self.i = save
            raise Unparsed("number expected at %r" % (self.t[self.i:self.i + 3],))
        return -t[1] if neg else t[1]


class Norm:
    """Base class: comma separated operands, each a register, a number or a label."""
    name = "?"
    REGS = {}
    PPCI_ALIAS = {}      # (mnemonic, n operands) -> [(mnemonic, [index | ("k", constant)]), ...]
    SYN = {}             # mnemonic synonyms applied on both sides
    soft_split = True

    # -- operands
    def reg(self, word):
        return self.REGS.get(word)

    def operand(self, toks, side, mn):
        c = Cursor(toks)
        v = self.simple(c, side)
        if not c.done():
            raise Unparsed("trailing tokens in operand %r" % (c.t,))
        return v

    def simple(self, c, side):
        k, v = c.peek()
        if k == "w":
            r = self.reg(v)
            if r is not None:
                c.next()
                return r
            raise Unparsed("unknown word %r" % v)
        return c.number()

    # -- instruction level
    def regroup(self, groups):
        return groups

    def parse(self, mn, optoks, side):
        return [self.operand(t, side, mn) for t in optoks]

    def ref_canon(self, mn, ops):
        return mn, ops

    def finish(self, mn, ops):
        return self.SYN.get(mn, mn), ops

    def ppci(self, ins):
        """-> [(mn, ops, prov)]   prov[i] = set of top-level ppci operand indices operand i was built from"""
        toks = ppci_tokens(ins)
        mn, rest = split_mnemonic(toks)
        if not mn:
            raise Unparsed("no mnemonic")
        rest = self.ppci_pre(mn, rest)
        groups = self.regroup(split_operands(rest, self.soft_split))
        ops = self.parse(mn, groups, "ppci")
        prov = [frozenset(t[2] for t in g if t[2] is not None) for g in groups]
        if len(prov) != len(ops):
            prov = [frozenset()] * len(ops)
        out = []
        tmpl = self.ppci_alias(mn, ops)
        if tmpl is None:
            tmpl = [(mn, list(range(len(ops))))]
        for m2, idx in tmpl:
            o2, p2 = [], []
            for j in idx:
                if isinstance(j, tuple):
                    o2.append(j[1])
                    p2.append(frozenset())
                else:
                    o2.append(ops[j])
                    p2.append(prov[j])
            m3, o3 = self.finish(m2, o2)
            if len(o3) != len(o2):
                p2 = [frozenset()] * len(o3)
            out.append((m3, o3, p2))
        return self.seq_canon(out)

    def ppci_pre(self, mn, toks):
        return toks

    def ppci_alias(self, mn, ops):
        return self.PPCI_ALIAS.get((mn, len(ops)))

    def ref(self, texts, blob=None):
        """-> [(mn, ops)]"""
        out = []
        for text in texts:
            toks = lex(self.ref_pre(text))
            if not toks or toks[0][0] != "w":
                raise Unparsed("no mnemonic in %r" % text)
            mn = toks[0][1]
            groups = self.regroup(split_operands(toks[1:], False))
            ops = self.parse(mn, groups, "ref")
            mn, ops = self.ref_canon(mn, ops)
            out.append(self.finish(mn, ops))
        return self.seq_canon(out)

    def ref_pre(self, text):
        return text

    def seq_canon(self, seq):
        """Sequence level canonicalisation applied to both sides (ppci entries carry a third element, the provenance)."""
        return seq


def leaf_diffs(p, r, out):
    """Append (ppci leaf, reference leaf) for every differing leaf of two canonical operands."""
    if p == L or p == r:
        return
    if isinstance(p, tuple) and isinstance(r, tuple) and len(p) == len(r) and p and p[0] == r[0] and p[0] in ("m", "sh"):
        for a, b in zip(p[1:], r[1:]):
            leaf_diffs(a, b, out)
        return
    out.append((p, r))


def compare(pseq, rseq):
    """None when equal, else (kind, n, details)
    kind: 'length' | 'mnemonic' | 'operand-count' | 'operands-swapped' | 'operands'
    details for 'operands': [(operand index, provenance set, [(ppci leaf, reference leaf), ...])]"""
    if len(pseq) != len(rseq):
        return ("length", 0, None)
    for n, ((pm, po, prov), (rm, ro)) in enumerate(zip(pseq, rseq)):
        if pm != rm:
            return ("mnemonic", n, None)
        if len(po) != len(ro):
            return ("operand-count", n, None)
        det = []
        for i in range(len(po)):
            d = []
            leaf_diffs(po[i], ro[i], d)
            if d:
                det.append((i, prov[i], d))
        if det:
            if L not in po and len(det) >= 2 and sorted(map(repr, po)) == sorted(map(repr, ro)):
                return ("operands-swapped", n, det)
            return ("operands", n, det)
    return None


# ====================================================================== RISC-V
# Register names: RISC-V ELF psABI, table "Integer register convention" / "Floating-point register convention".
# Pseudo instructions: The RISC-V Instruction Set Manual vol. I, chapter 25 "RISC-V Assembly Programmer's Handbook",
# tables 25.2 / 25.3 (mv, li, nop, j, jal, bgt, ble, bgtu, bleu, csrr, csrw, csrs, csrc, csrwi, csrsi, csrci, rdcycle..., fgt/fge:
# GNU as / LLVM `fgt.s rd, rs, rt -> flt.s rd, rt, rs`, `fge.s rd, rs, rt -> fle.s rd, rt, rs`).

def _rv_regs():
    d = {}
    abi = ["zero", "ra", "sp", "gp", "tp", "t0", "t1", "t2", "s0", "s1"] + ["a%d" % i for i in range(8)] + \
          ["s%d" % i for i in range(2, 12)] + ["t3", "t4", "t5", "t6"]
    for i in range(32):
        d["x%d" % i] = ("r", "x", i)
        d[abi[i]] = ("r", "x", i)
    d["fp"] = ("r", "x", 8)
    fabi = ["ft%d" % i for i in range(8)] + ["fs0", "fs1"] + ["fa%d" % i for i in range(8)] + \
           ["fs%d" % i for i in range(2, 12)] + ["ft8", "ft9", "ft10", "ft11"]
    for i in range(32):
        d["f%d" % i] = ("r", "f", i)
        d[fabi[i]] = ("r", "f", i)
    return d


# CSR numbers: privileged specification, table "Currently allocated RISC-V machine-level / unprivileged CSR addresses"
_RV_CSR = {"fflags": 1, "frm": 2, "fcsr": 3, "cycle": 0xC00, "time": 0xC01, "instret": 0xC02, "cycleh": 0xC80, "timeh": 0xC81,
           "instreth": 0xC82, "mstatus": 0x300, "misa": 0x301, "medeleg": 0x302, "mideleg": 0x303, "mie": 0x304, "mtvec": 0x305,
           "mcounteren": 0x306, "mscratch": 0x340, "mepc": 0x341, "mcause": 0x342, "mtval": 0x343, "mip": 0x344,
           "mvendorid": 0xF11, "marchid": 0xF12, "mimpid": 0xF13, "mhartid": 0xF14}

_RV_CSR_OPS = {"csrrw", "csrrs", "csrrc", "csrrwi", "csrrsi", "csrrci"}
_RV_LOADSTORE = {"lb", "lh", "lw", "lbu", "lhu", "sb", "sh", "sw", "flw", "fsw", "fld", "fsd", "c.lw", "c.sw", "c.lwsp", "c.swsp"}
_RV_ROUNDED = {"fadd.s", "fsub.s", "fmul.s", "fdiv.s", "fsqrt.s", "fcvt.s.w", "fcvt.s.wu", "fcvt.w.s", "fcvt.wu.s"}
X0 = ("r", "x", 0)
X1 = ("r", "x", 1)
X2 = ("r", "x", 2)


class RiscvNorm(Norm):
    name = "riscv"
    REGS = _rv_regs()
    finx = False          # rvfx: float operations on the integer register file (same encodings, Zfinx style)
    PPCI_ALIAS = {
        ("mv", 2): [("addi", [0, 1, ("k", 0)])],
        ("nop", 0): [("addi", [("k", X0), ("k", X0), ("k", 0)])],
        ("j", 1): [("jal", [("k", X0), 0])],
        ("addi", 2): [("addi", [0, 0, 1])],
        ("bgt", 3): [("blt", [1, 0, 2])],
        ("ble", 3): [("bge", [1, 0, 2])],
        ("bgtu", 3): [("bltu", [1, 0, 2])],
        ("bleu", 3): [("bgeu", [1, 0, 2])],
        ("csrr", 2): [("csrrs", [0, 1, ("k", X0)])],
        ("csrw", 2): [("csrrw", [("k", X0), 0, 1])],
        ("csrs", 2): [("csrrs", [("k", X0), 0, 1])],
        ("csrc", 2): [("csrrc", [("k", X0), 0, 1])],
        ("csrwi", 2): [("csrrwi", [("k", X0), 0, 1])],
        ("csrsi", 2): [("csrrsi", [("k", X0), 0, 1])],
        ("csrci", 2): [("csrrci", [("k", X0), 0, 1])],
        ("rdcycle", 1): [("csrrs", [0, ("k", 0xC00), ("k", X0)])],
        ("rdtime", 1): [("csrrs", [0, ("k", 0xC01), ("k", X0)])],
        ("rdinstret", 1): [("csrrs", [0, ("k", 0xC02), ("k", X0)])],
        ("rdcycleh", 1): [("csrrs", [0, ("k", 0xC80), ("k", X0)])],
        ("rdtimeh", 1): [("csrrs", [0, ("k", 0xC81), ("k", X0)])],
        ("rdinstreth", 1): [("csrrs", [0, ("k", 0xC82), ("k", X0)])],
        # ppci pseudo instructions rendered as two instructions (both halves carry the label)
        ("la", 2): [("auipc", [0, 1]), ("addi", [0, 0, 1])],
        # standard assembler pseudo instructions (operands exchanged)
        ("fgt.s", 3): [("flt.s", [0, 2, 1])],
        ("fge.s", 3): [("fle.s", [0, 2, 1])],
        ("c.nop", 0): [("c.addi", [("k", X0), ("k", X0), ("k", 0)])],
    }
    SYN = {"fmv.x.s": "fmv.x.w", "fmv.s.x": "fmv.w.x", "bneq": "bne", "c.bneqz": "c.bnez",
           "f.feq.s": "feq.s", "f.fle.s": "fle.s", "f.flt.s": "flt.s", "f.fgt.s": "fgt.s", "f.fge.s": "fge.s"}

    def ppci_pre(self, mn, toks):
        # %pcrel_lo(label) / %pcrel_hi(label) / %hi(..) / %lo(..): a relocated value, i.e. a label
        out = []
        i = 0
        while i < len(toks):
            t = toks[i]
            if t[0] == "g" and t[1] == "%" and i + 4 < len(toks) and toks[i + 1][0] == "w" and toks[i + 2][:2] == ("g", "(") \
                    and toks[i + 3][0] == "L" and toks[i + 4][:2] == ("g", ")"):
                out.append(toks[i + 3])
                i += 5
                continue
            out.append(t)
            i += 1
        return out

    def operand(self, toks, side, mn):
        c = Cursor(toks)
        k, v = c.peek()
        if k == "w":
            r = self.reg(v)
            if r is None and v in _RV_CSR:
                r = _RV_CSR[v]
            if r is None and side == "ref" and v in ("dyn", "rne", "rtz", "rdn", "rup", "rmm"):
                r = ("w", v)
            if r is None:
                raise Unparsed("unknown word %r" % v)
            c.next()
            if not c.done():
                raise Unparsed("trailing tokens")
            return r
        off = c.number()
        if c.accept("g", "("):
            t = c.expect("w")
            base = self.reg(t[1])
            if base is None:
                raise Unparsed("base register %r" % t[1])
            c.expect("g", ")")
            if not c.done():
                raise Unparsed("trailing tokens")
            return ("m", base, off)
        if not c.done():
            raise Unparsed("trailing tokens")
        return off

    def ppci_alias(self, mn, ops):
        mn = self.SYN.get(mn, mn)
        if mn == "lw" and len(ops) == 2 and ops[1] == L:
            # Labelrel: auipc rd, %pcrel_hi(l) ; lw rd, %pcrel_lo(l)(rd)
            return [("auipc", [0, 1]), ("lw", [0, ("k", ("m", ops[0], L))])]
        return self.PPCI_ALIAS.get((mn, len(ops)))

    def ref_canon(self, mn, ops):
        if mn == "jalr" and len(ops) == 2 and isinstance(ops[1], tuple) and ops[1][0] == "m":
            return mn, [ops[0], ops[1][1], ops[1][2]]
        if mn in _RV_ROUNDED and ops and ops[-1] == ("w", "dyn"):
            return mn, ops[:-1]
        if mn in ("c.slli64", "c.srli64", "c.srai64") and len(ops) == 1:
            return mn[:-2], [ops[0], 0]        # shamt = 0 (RV128 name of the same encoding)
        if mn == "c.nop":
            return "c.addi", [X0, ops[0] if ops else 0]    # c.nop [imm] is c.addi x0, imm
        return mn, ops

    def seq_canon(self, seq):
        # lui rd, hi ; addi rd, rd, lo  ->  li rd, value   (the standard expansion of li, table 25.2)
        out = []
        i = 0
        while i < len(seq):
            a = seq[i]
            b = seq[i + 1] if i + 1 < len(seq) else None
            if b is not None and a[0] == "lui" and b[0] == "addi" and len(a[1]) == 2 and len(b[1]) == 3 \
                    and isinstance(a[1][1], int) and isinstance(b[1][2], int) and a[1][0] == b[1][0] == b[1][1]:
                val = ((a[1][1] << 12) + b[1][2]) & 0xFFFFFFFF
                out.append(remake(a, "li", [a[1][0], val]))
                i += 2
                continue
            if b is not None and a[0] == "lui" and b[0] == "li" and len(a[1]) == 2 and len(b[1]) == 2 \
                    and isinstance(a[1][1], int) and isinstance(b[1][1], int) and a[1][0] == b[1][0] == X0:
                # rd = x0: the addi half already reads 'li x0, lo' (addi x0, x0, lo)
                val = ((a[1][1] << 12) + signed(b[1][1], 32)) & 0xFFFFFFFF
                out.append(remake(a, "li", [X0, val]))
                i += 2
                continue
            out.append(a)
            i += 1
        return out

    def finish(self, mn, ops):
        mn = self.SYN.get(mn, mn)
        ops = list(ops)
        if mn == "c.lui" and len(ops) == 2 and isinstance(ops[1], int):
            ops[1] &= 0xFFFFF       # LLVM prints the sign-extended 6-bit field as a 20-bit number
        if mn == "addi" and len(ops) == 3 and ops[1] == X0 and (isinstance(ops[2], int) or ops[2] == L):
            mn, ops = "li", [ops[0], ops[2] if ops[2] == L else ops[2] & 0xFFFFFFFF]      # li rd, imm = addi rd, x0, imm (table 25.2)
        elif mn == "li" and len(ops) == 2 and isinstance(ops[1], int):
            ops[1] &= 0xFFFFFFFF
        if mn in ("csrrw", "csrrs", "csrrc", "csrrwi", "csrrsi", "csrrci") and len(ops) == 3:
            if isinstance(ops[1], tuple) and ops[1][0] == "w":
                raise Unparsed("csr name %r" % (ops[1],))
        # compressed instructions in expanded operand form (RVC: rd doubles as rs1; the stack pointer is implicit)
        if mn in ("c.addi", "c.slli", "c.srli", "c.srai", "c.andi", "c.addiw") and len(ops) == 2:
            ops = [ops[0], ops[0], ops[1]]
        elif mn == "c.addi16sp" and len(ops) == 1:
            ops = [X2, ops[0]]
        elif mn == "c.addi4spn" and len(ops) == 2:
            ops = [ops[0], X2, ops[1]]
        if self.finx and (mn.startswith("f") and "." in mn):
            ops = [("r", "x", o[2]) if isinstance(o, tuple) and o[:2] == ("r", "f") else o for o in ops]
        return mn, ops


    def generalise(self, mn, pl, rl):
        """One locus for one cause: the 3-bit register fields of the compressed formats are filled with `num - 8`; x0..x7 give a
        negative number that the token stores modulo 8."""
        if mn.startswith("c.") and isinstance(pl, tuple) and isinstance(rl, tuple) and pl[:2] == rl[:2] == ("r", "x") \
                and pl[2] < 8 and rl[2] == 8 + ((pl[2] - 8) & 7):
            return "creg3-field/accepts-x0-x7"
        return None


class RiscvFinxNorm(RiscvNorm):
    name = "riscv:rvfx"
    finx = True


NORMS = {}


def get(arch_name):
    return NORMS.get(arch_name)


NORMS["riscv"] = RiscvNorm()
NORMS["riscv:rvc"] = NORMS["riscv"]
NORMS["riscv:rvf"] = NORMS["riscv"]
NORMS["riscv:rvfx"] = RiscvFinxNorm()


# ====================================================================== ARM / Thumb
# Register names and condition codes: ARM Architecture Reference Manual ARMv7-A/R (DDI 0406C) A2.3 (SP = R13, LR = R14, PC = R15),
# A8.3 table A8-1 (HS = CS, LO = CC).  UAL aliases (A8.8): LSL/LSR/ASR/ROR Rd, Rm, #n = MOV Rd, Rm, <shift> #n; LSL Rd, Rn, Rm = MOV Rd,
# Rn, LSL Rm; PUSH = STMDB SP!, POP = LDM SP!; NEG Rd, Rm = RSBS Rd, Rm, #0.  16-bit Thumb data processing instructions set the flags
# outside an IT block (A8.8: "ADDS <Rd>, <Rn>, #<imm3>  Outside IT block") - pre-UAL syntax, which ppci prints, has no S.

def _arm_regs():
    d = {}
    for i in range(16):
        d["r%d" % i] = ("r", "r", i)
    d.update({"sp": ("r", "r", 13), "lr": ("r", "r", 14), "pc": ("r", "r", 15), "ip": ("r", "r", 12), "fp": ("r", "r", 11),
              "sl": ("r", "r", 10), "sb": ("r", "r", 9)})
    for i in range(16):
        d["p%d" % i] = ("w", "p%d" % i)
        d["c%d" % i] = ("w", "c%d" % i)
    return d


_ARM_CONDS = ("eq", "ne", "cs", "hs", "cc", "lo", "mi", "pl", "vs", "vc", "hi", "ls", "ge", "lt", "gt", "le", "al")
_ARM_BASES = ("mov", "mvn", "cmp", "cmn", "tst", "teq", "mul", "mla", "mls", "sdiv", "udiv", "adc", "add", "and", "eor", "orr", "sub",
              "rsb", "rsc", "sbc", "bic", "lsl", "lsr", "asr", "ror", "bl", "blx", "bx", "b", "push", "pop", "ldm", "stmdb", "str", "ldr",
              "strh", "strb", "ldrb", "ldrsb", "ldrh", "ldrsh", "adr", "mcr", "mrc", "neg", "nop", "yield", "bkpt", "svc", "bw")
_ARM_SHIFTS = ("lsl", "lsr", "asr", "ror")
PC = ("r", "r", 15)
SP = ("r", "r", 13)


def _arm_mnemonic(mn):
    """(base, s flag, condition) with hs/lo spelt cs/cc -> hs/lo; None if not of that shape."""
    wide = ""
    if mn.endswith(".w"):
        mn, wide = mn[:-2], ".w"
    for base in sorted(_ARM_BASES, key=len, reverse=True):
        if mn.startswith(base):
            rest = mn[len(base):]
            s = ""
            if rest in _ARM_CONDS or rest == "":
                cond = rest
            elif rest[:1] == "s" and (rest[1:] in _ARM_CONDS or rest[1:] == ""):
                s, cond = "s", rest[1:]
            else:
                continue
            cond = {"cs": "hs", "cc": "lo", "al": ""}.get(cond, cond)
            return base, s, cond, wide
    return None


class ArmNorm(Norm):
    name = "arm"
    REGS = dict(_arm_regs(), apsr_nzcv=("r", "r", 15))      # MRC with Rt = 15 writes the flags (A8.8.108)
    MOD = 1 << 32
    soft_split = False
    thumb = False

    def operand(self, toks, side, mn):
        c = Cursor(toks)
        k, v = c.peek()
        if k == "g" and v == "[":
            c.next()
            t = c.expect("w")
            base = self.reg(t[1])
            if base is None or base[0] != "r":
                raise Unparsed("base register")
            off = 0
            if c.accept("g", ","):
                k2, v2 = c.peek()
                if k2 == "w":
                    off = self.reg(v2)
                    if off is None or off[0] != "r":
                        raise Unparsed("index register")
                    c.next()
                else:
                    off = c.number()
            c.expect("g", "]")
            if not c.done():
                raise Unparsed("addressing mode with write-back")
            return ("m", base, off)
        if k == "g" and v == "{":
            c.next()
            regs = []
            while not c.accept("g", "}"):
                t = c.expect("w")
                r = self.reg(t[1])
                if r is None:
                    raise Unparsed("register list")
                regs.append(r)
                c.accept("g", ",")
            if not c.done():
                raise Unparsed("trailing tokens")
            return ("rs", frozenset(regs))
        if k == "w" and v in _ARM_SHIFTS:
            c.next()
            k2, v2 = c.peek()
            if k2 == "w":
                amount = self.reg(v2)
                if amount is None:
                    raise Unparsed("shift register")
                c.next()
            else:
                amount = c.number()
            if not c.done():
                raise Unparsed("trailing tokens")
            return ("shift", v, amount)
        if k == "w":
            r = self.reg(v)
            if r is None:
                raise Unparsed("unknown word %r" % v)
            c.next()
            if c.accept("g", "!"):
                r = ("wb", r)
            k2, v2 = c.peek()
            if k2 == "w" and v2 in _ARM_SHIFTS and r[0] == "r":
                c.next()
                k3, v3 = c.peek()
                if k3 == "w":
                    amount = self.reg(v3)
                    if amount is None:
                        raise Unparsed("shift register")
                    c.next()
                else:
                    amount = c.number()
                if not (v2 == "lsl" and amount == 0):
                    r = ("sh", r, v2, amount)
            if not c.done():
                raise Unparsed("trailing tokens")
            return r
        n = c.number()
        if not c.done():
            raise Unparsed("trailing tokens")
        return n

    def regroup(self, groups):
        # 'Rm, lsl #n' is one operand: a trailing shift group joins the register group before it
        if len(groups) >= 2 and groups[-1] and groups[-1][0][0] == "w" and groups[-1][0][1] in _ARM_SHIFTS:
            groups = groups[:-2] + [groups[-2] + groups[-1]]
        return groups

    def ppci_alias(self, mn, ops):
        m = _arm_mnemonic(mn)
        if m and m[0] in ("push", "pop") and ops and all(isinstance(o, tuple) and o[0] == "r" for o in ops):
            return [(mn, [("k", ("rs", frozenset(ops)))])]
        if self.thumb:
            if mn == "mul" and len(ops) == 2:
                return [("mul", [0, 1, 0])]          # pre-UAL MUL Rd, Rm: Rd := Rm * Rd
            if mn == "rsb" and len(ops) == 2:
                return [("rsb", [0, 1, ("k", 0)])]   # NEG Rd, Rm = RSBS Rd, Rm, #0
            if mn in ("add", "sub") and len(ops) == 3 and ops[0] == ops[1] == SP:
                return [(mn, [0, 2])]
        return None

    def ref(self, texts, blob=None):
        self._short = blob is not None and len(blob) == 2
        return Norm.ref(self, texts)

    def ref_canon(self, mn, ops):
        m = _arm_mnemonic(mn)
        if m is None:
            return mn, ops
        base, s, cond, wide = m
        if base in ("stmdb", "ldm") and len(ops) == 2 and ops[0] == ("wb", SP):
            base, ops = ("push" if base == "stmdb" else "pop"), [ops[1]]
        if self.thumb and self._short and s and base in ("mov", "add", "sub", "mul", "and", "orr", "eor", "lsl", "lsr", "asr", "ror",
                                                         "rsb", "adc", "sbc", "bic", "mvn", "neg"):
            s = ""
        if self.thumb and base in ("and", "orr", "eor", "lsl", "lsr", "asr", "ror", "adc", "sbc", "bic") and len(ops) == 2:
            pass
        return base + s + cond + wide, ops

    def finish(self, mn, ops):
        m = _arm_mnemonic(mn)
        ops = list(ops)
        if m is not None:
            base, s, cond, wide = m
            # shifts are moves with a shifted operand
            if base in _ARM_SHIFTS and len(ops) == 3:
                amount = ops[2]
                if amount == 0 and base == "lsl":
                    ops = [ops[0], ops[1]]
                else:
                    ops = [ops[0], ("sh", ops[1], base, amount)]
                base = "mov"
            if base == "bw":
                base, wide = "b", ".w"
            if self.thumb and base == "b" and cond and len(mn) > 1 and mn.endswith("w") and not wide:
                pass
            if base == "and" and len(ops) == 3 and ops[1] == PC and ops[2] == 0 and not self.thumb:
                base, ops = "adr", [ops[0], 0]      # ADR before its relocation (adr_imm12 completes the opcode to ADD/SUB)
            if base == "adr" and len(ops) == 2 and ops[1] == L:
                ops[1] = 0
            mn = base + s + cond + wide
        out = []
        for o in ops:
            if isinstance(o, int):
                o = signed(o, 32)       # 'mov r1, #0x80000001' is printed as a negative number by LLVM
            out.append(o)
        return mn, out


class ThumbNorm(ArmNorm):
    name = "arm:thumb"
    thumb = True
    SYNW = {}

    def ppci_alias(self, mn, ops):
        # ppci spells the 32-bit conditional branches b<cond>w and the wide branch bw
        return ArmNorm.ppci_alias(self, mn, ops)

    def finish(self, mn, ops):
        if len(mn) >= 4 and mn[0] == "b" and mn.endswith("w") and mn[1:-1] in _ARM_CONDS:
            mn = "b" + mn[1:-1] + ".w"
        return ArmNorm.finish(self, mn, ops)


NORMS["arm"] = ArmNorm()
NORMS["arm:thumb"] = ThumbNorm()


# ====================================================================== x86-64
# Register numbers: Intel SDM vol. 2, table 2-4 / 3-1 (register encodings with REX), AMD APM vol. 3 figure 2-? ; with any REX prefix
# the byte registers 4..7 are SPL, BPL, SIL, DIL instead of AH, CH, DH, BH (SDM vol. 2, 2.2.1.2 / 3.1.1.1).
# Mnemonic synonyms (SDM vol. 2 Jcc, SETcc: JZ = JE, JNZ = JNE, JB = JC = JNAE, JAE = JNB = JNC, JBE = JNA, JA = JNBE, JL = JNGE,
# JGE = JNL, JLE = JNG, JG = JNLE; SAL = SHL; MOVABS is the AT&T/LLVM spelling of MOV r64, imm64).

def _x86_regs():
    d = {}
    n64 = ["rax", "rcx", "rdx", "rbx", "rsp", "rbp", "rsi", "rdi"] + ["r%d" % i for i in range(8, 16)]
    n32 = ["eax", "ecx", "edx", "ebx", "esp", "ebp", "esi", "edi"] + ["r%dd" % i for i in range(8, 16)]
    n16 = ["ax", "cx", "dx", "bx", "sp", "bp", "si", "di"] + ["r%dw" % i for i in range(8, 16)]
    n8 = ["al", "cl", "dl", "bl", "spl", "bpl", "sil", "dil"] + ["r%db" % i for i in range(8, 16)]
    for i in range(16):
        d[n64[i]] = ("r", "r64", i)
        d[n32[i]] = ("r", "r32", i)
        d[n16[i]] = ("r", "r16", i)
        d[n8[i]] = ("r", "r8", i)
        d["xmm%d" % i] = ("r", "xmm", i)
    for i, n in enumerate(["ah", "ch", "dh", "bh"]):
        d[n] = ("r", "r8h", 4 + i)
    d["rip"] = ("r", "rip", 0)
    for i, n in enumerate(["es", "cs", "ss", "ds", "fs", "gs"]):
        d[n] = ("r", "seg", i)
    return d


_X86_SIZES = {"byte": 8, "word": 16, "dword": 32, "qword": 64, "xmmword": 128, "tbyte": 80, "xword": 80}
_X86_SYN = {"jz": "je", "jnz": "jne", "jc": "jb", "jnae": "jb", "jnb": "jae", "jnc": "jae", "jna": "jbe", "jnbe": "ja", "jnge": "jl",
            "jnl": "jge", "jng": "jle", "jnle": "jg", "sal": "shl", "movabs": "mov", "jmpshort": "jmp", "retq": "ret"}
_X86_STRING = {"movsb", "movsw", "movsd", "movsq", "stosb", "lodsb", "cmpsb", "scasb"}
_X87_SUFFIX = {32: "s", 64: "l", 80: "t"}
_X86_BITS = {"r64": 64, "r32": 32, "r16": 16, "r8": 8, "r8h": 8}


class X86Norm(Norm):
    name = "x86_64"
    REGS = _x86_regs()
    SYN = _X86_SYN
    soft_split = False
    MOD = 1 << 64

    def ref_pre(self, text):
        return re.sub(r"\s+#\s.*$", "", text)

    def operand(self, toks, side, mn):
        c = Cursor(toks)
        c.accept("g", "*")          # ppci: call *reg
        size = None
        k, v = c.peek()
        if k == "w" and v in _X86_SIZES and c.peek(1) == ("w", "ptr"):
            size = _X86_SIZES[v]
            c.next()
            c.next()
            k, v = c.peek()
        seg = None
        if k == "w" and c.peek(1) == ("g", ":"):
            seg = self.reg(v)
            if seg is None or seg[1] != "seg":
                raise Unparsed("segment")
            c.next()
            c.next()
            k, v = c.peek()
        if k == "g" and v == "[":
            m = self.mem(c, side)
            if not c.done():
                raise Unparsed("trailing tokens")
            return ("m",) + m + (size, seg)
        if size is not None or seg is not None:
            raise Unparsed("size without memory operand")
        if k == "w" and v == "st":
            c.next()
            n = 0
            if c.accept("g", "("):
                n = c.expect("n")[1]
                c.expect("g", ")")
            if not c.done():
                raise Unparsed("trailing tokens")
            return ("r", "st", n)
        if k == "w":
            r = self.reg(v)
            if r is None:
                raise Unparsed("unknown word %r" % v)
            c.next()
            if not c.done():
                raise Unparsed("trailing tokens")
            return r
        n = c.number()
        if not c.done():
            raise Unparsed("trailing tokens")
        return n

    def mem(self, c, side):
        c.expect("g", "[")
        regs = []
        index = None
        scale = 1
        disp = 0
        sign = 1
        while True:
            k, v = c.next()
            if k is None:
                raise Unparsed("unterminated memory operand")
            if k == "g" and v == "]":
                break
            if k == "g" and v in "+,":
                sign = 1
                continue
            if k == "g" and v == "-":
                sign = -1
                continue
            if k == "L":
                disp = L
                continue
            if k == "n":
                if c.accept("g", "*"):
                    t = c.expect("w")
                    r = self.reg(t[1])
                    if r is None or index is not None:
                        raise Unparsed("scaled index")
                    index, scale = r, v
                else:
                    if disp == L:
                        raise Unparsed("label and displacement")
                    disp += sign * v
                sign = 1
                continue
            if k == "w":
                r = self.reg(v)
                if r is None:
                    raise Unparsed("unknown word %r in memory operand" % v)
                if c.accept("g", "*"):
                    if index is not None:
                        raise Unparsed("two scaled registers")
                    index, scale = r, c.expect("n")[1]
                else:
                    regs.append(r)
                continue
            raise Unparsed("memory operand token %r" % (v,))
        base = None
        if regs:
            base = regs.pop(0)
        if regs:
            if index is not None:
                raise Unparsed("three registers")
            index = regs.pop(0)
        if regs:
            raise Unparsed("three registers")
        if isinstance(disp, int):
            disp = signed(disp, 32)         # displacements are at most 32 bits wide; '[rdx + 0xffffffff]' is '[rdx - 1]'
        return (base, index, scale if index is not None else 1, disp)

    def ref_canon(self, mn, ops):
        if mn in _X86_STRING and all(isinstance(o, tuple) and o[0] == "m" for o in ops):
            return mn, []
        if mn in ("shl", "sal", "shr", "sar", "rol", "ror", "rcl", "rcr") and len(ops) == 2 and ops[1] == 1:
            ops = ops[:1]           # objdump spells the D0/D1 shift-by-one forms with an explicit ', 1'; LLVM and ppci do not
        if mn in ("fld", "fst", "fstp", "fild", "fist", "fistp", "fadd", "fsub", "fmul", "fdiv") and len(ops) == 1 \
                and isinstance(ops[0], tuple) and ops[0][0] == "m" and ops[0][5] in _X87_SUFFIX:
            mn = mn + _X87_SUFFIX[ops[0][5]]        # AT&T operand-size suffix, which ppci prints
        return mn, ops

    def finish(self, mn, ops):
        mn = self.SYN.get(mn, mn)
        bits = None
        for o in ops:
            if isinstance(o, tuple) and o[0] == "r" and o[1] in _X86_BITS:
                bits = _X86_BITS[o[1]]
                break
        out = []
        for o in ops:
            if isinstance(o, tuple) and o[0] == "m":
                o = o[:5]       # the operand size is not part of what ppci prints
            elif isinstance(o, int) and bits:
                o = signed(o, bits)
            out.append(o)
        return mn, out

    def seq_canon(self, seq):
        # ppci pseudo instructions push/pop xmm: sub rsp, n ; movs[sd] [rsp], xmm   /   movs[sd] xmm, [rsp] ; add rsp, n
        if len(seq) == 2:
            a, b = seq
            rsp = ("r", "r64", 4)
            slot = ("m", rsp, None, 1, 0)
            if a[0] == "sub" and len(a[1]) == 2 and a[1][0] == rsp and a[1][1] in (4, 8) and b[0] in ("movss", "movsd") \
                    and len(b[1]) == 2 and b[1][0] == slot and (a[1][1] == 8) == (b[0] == "movsd"):
                return [remake(a, "push", [b[1][1]])]
            if b[0] == "add" and len(b[1]) == 2 and b[1][0] == rsp and b[1][1] in (4, 8) and a[0] in ("movss", "movsd") \
                    and len(a[1]) == 2 and a[1][1] == slot and (b[1][1] == 8) == (a[0] == "movsd"):
                return [remake(a, "pop", [a[1][0]])]
        return seq

    def generalise(self, mn, pl, rl):
        if isinstance(pl, tuple) and isinstance(rl, tuple) and pl[:2] == ("r", "r8h") and rl[:2] == ("r", "r8") and pl[2] == rl[2]:
            return "high-byte-register/rex-prefix-turns-ah-ch-dh-bh-into-spl-bpl-sil-dil"
        return None


NORMS["x86_64"] = X86Norm()
NORMS["x86_64:x87"] = NORMS["x86_64"]


# ====================================================================== MIPS32
# Register names: "MIPS32 Architecture For Programmers" vol. I table "CPU register usage" / o32 ABI ($0 zero, $1 at, $2-3 v0-v1,
# $4-7 a0-a3, $8-15 t0-t7, $16-23 s0-s7, $24-25 t8-t9, $26-27 k0-k1, $28 gp, $29 sp, $30 fp/s8, $31 ra).
# NOP is SLL r0, r0, 0 (vol. II "NOP"); LLVM prints it as nop.  Shifts by a register: SLLV rd, rt, rs (vol. II).

def _mips_regs():
    names = ["zero", "at", "v0", "v1", "a0", "a1", "a2", "a3"] + ["t%d" % i for i in range(8)] + ["s%d" % i for i in range(8)] + \
            ["t8", "t9", "k0", "k1", "gp", "sp", "fp", "ra"]
    d = {}
    for i, n in enumerate(names):
        d[n] = ("r", "r", i)
        d["r%d" % i] = ("r", "r", i)
    d["s8"] = ("r", "r", 30)
    return d


class MipsNorm(Norm):
    name = "mips"
    REGS = _mips_regs()
    ZERO = ("r", "r", 0)

    def reg_at(self, c):
        dollar = c.accept("g", "$")
        k, v = c.peek()
        if k == "n" and dollar:
            c.next()
            if not 0 <= v < 32:
                raise Unparsed("register number")
            return ("r", "r", v)
        if k == "w":
            r = self.reg(v)
            if r is None:
                raise Unparsed("unknown word %r" % v)
            c.next()
            return r
        raise Unparsed("register expected")

    def operand(self, toks, side, mn):
        c = Cursor(toks)
        k, v = c.peek()
        if (k == "g" and v == "$") or k == "w":
            r = self.reg_at(c)
            if not c.done():
                raise Unparsed("trailing tokens")
            return r
        off = c.number()
        if c.accept("g", "("):
            base = self.reg_at(c)
            c.expect("g", ")")
            if not c.done():
                raise Unparsed("trailing tokens")
            return ("m", base, off)
        if not c.done():
            raise Unparsed("trailing tokens")
        return off

    def finish(self, mn, ops):
        # effect-free writes to $zero are all "nop"; the architectural NOP is sll $0, $0, 0
        if mn in ("sll", "add", "addu", "or", "and", "sub", "subu", "xor") and len(ops) == 3 and ops[0] == self.ZERO \
                and all(o == self.ZERO or o == 0 for o in ops):
            return "nop", []
        return mn, list(ops)


NORMS["mips"] = MipsNorm()


# ====================================================================== MSP430
# MSP430x1xx Family User's Guide (SLAU049) 3.2/3.3: R0 = PC, R1 = SP, R2 = SR/CG1, R3 = CG2; addressing modes Rn, X(Rn), ADDR (symbolic,
# X(PC)), &ADDR, @Rn, @Rn+, #N; table 3-? "emulated instructions" (3.4.4): pop, ret, br, nop, clrc, setc, clrz, setz, clrn, setn, dint,
# eint, inc, incd, dec, decd, tst, clr, inv, rla, rlc, adc, sbc, dadc.  Jump synonyms: jne = jnz, jeq = jz, jnc = jlo, jc = jhs.

def _msp_regs():
    d = {}
    for i in range(16):
        d["r%d" % i] = ("r", "r", i)
    d.update({"pc": ("r", "r", 0), "sp": ("r", "r", 1), "sr": ("r", "r", 2), "cg": ("r", "r", 3), "cg2": ("r", "r", 3)})
    return d


_MSP_PC, _MSP_SP, _MSP_SR, _MSP_CG = ("r", "r", 0), ("r", "r", 1), ("r", "r", 2), ("r", "r", 3)
_MSP_EMUL1 = {  # emulated one-operand instruction -> (core mnemonic, immediate source)
    "inc": ("add", 1), "incd": ("add", 2), "dec": ("sub", 1), "decd": ("sub", 2), "tst": ("cmp", 0), "clr": ("mov", 0),
    "inv": ("xor", -1), "adc": ("addc", 0), "sbc": ("subc", 0), "dadc": ("dadd", 0)}
_MSP_EMUL0 = {"clrc": ("bic", 1), "setc": ("bis", 1), "clrz": ("bic", 2), "setz": ("bis", 2), "clrn": ("bic", 4), "setn": ("bis", 4),
              "dint": ("bic", 8), "eint": ("bis", 8)}


class Msp430Norm(Norm):
    name = "msp430"
    REGS = _msp_regs()
    SYN = {"jnz": "jne", "jz": "jeq", "jnc": "jlo", "jc": "jhs"}
    MOD = 1 << 16

    def operand(self, toks, side, mn):
        c = Cursor(toks)
        k, v = c.peek()
        if k == "g" and v == "&":
            c.next()
            a = c.number()
            if not c.done():
                raise Unparsed("trailing tokens")
            return ("m", "abs", a)
        if k == "g" and v == "#":
            n = c.number()
            if not c.done():
                raise Unparsed("trailing tokens")
            return n
        if k == "g" and v == "@":
            c.next()
            t = c.expect("w")
            r = self.reg(t[1])
            if r is None:
                raise Unparsed("register")
            inc = bool(c.accept("g", "+"))
            if not c.done():
                raise Unparsed("trailing tokens")
            return ("m", "ind+" if inc else "ind", r)
        if k == "g" and v == "$":
            c.next()             # jump target printed as $+offset
            n = c.number()
            if not c.done():
                raise Unparsed("trailing tokens")
            return n
        if k == "w":
            r = self.reg(v)
            if r is None:
                raise Unparsed("unknown word %r" % v)
            c.next()
            if not c.done():
                raise Unparsed("trailing tokens")
            return r
        off = c.number()
        if c.accept("g", "("):
            t = c.expect("w")
            r = self.reg(t[1])
            if r is None:
                raise Unparsed("register")
            c.expect("g", ")")
            if not c.done():
                raise Unparsed("trailing tokens")
            return ("m", "idx", r, off)
        if not c.done():
            raise Unparsed("trailing tokens")
        if mn.startswith("j"):
            return off
        return ("m", "sym", off)      # symbolic mode: ADDR = X(PC)

    def finish(self, mn, ops):
        mn = self.SYN.get(mn, mn)
        size = ""
        if mn.endswith(".w"):
            mn = mn[:-2]
        elif mn.endswith(".b"):
            mn, size = mn[:-2], ".b"
        ops = list(ops)
        if mn in _MSP_EMUL1 and len(ops) == 1:
            core, k = _MSP_EMUL1[mn]
            mn, ops = core, [k, ops[0]]
        elif mn in _MSP_EMUL0 and not ops:
            core, k = _MSP_EMUL0[mn]
            mn, ops = core, [k, _MSP_SR]
        elif mn == "pop" and len(ops) == 1:
            mn, ops = "mov", [("m", "ind+", _MSP_SP), ops[0]]
        elif mn == "ret" and not ops:
            mn, ops = "mov", [("m", "ind+", _MSP_SP), _MSP_PC]
        elif mn == "br" and len(ops) == 1:
            mn, ops = "mov", [ops[0], _MSP_PC]
        elif mn == "nop" and not ops:
            mn, ops = "mov", [0, _MSP_CG]
        elif mn in ("rla", "rlc") and len(ops) == 1:
            mn, ops = ("add" if mn == "rla" else "addc"), [ops[0], ops[0]]
        out = []
        bits = 8 if size else 16
        for o in ops:
            if isinstance(o, int):
                o = signed(o, bits)
            elif isinstance(o, tuple) and o[0] == "m" and isinstance(o[-1], int):
                o = o[:-1] + (signed(o[-1], 16),)
            out.append(o)
        # R3 read as a source operand in register mode is the constant generator: the constant 0 (SLAU049 3.2.4, table 3-2);
        # X(PC) is the symbolic mode, X(SR) the absolute mode
        nsrc = len(out) - 1 if len(out) == 2 else (1 if len(out) == 1 and mn in ("rrc", "rra", "swpb", "sxt", "push", "call") else 0)
        cg = {("m", "ind", _MSP_CG): 2, ("m", "ind+", _MSP_CG): -1, ("m", "ind", _MSP_SR): 4, ("m", "ind+", _MSP_SR): 8}
        for i in range(nsrc):
            if out[i] == _MSP_CG:
                out[i] = 0
            elif out[i] in cg:
                out[i] = cg[out[i]]          # @R3 = #2, @R3+ = #-1, @R2 = #4, @R2+ = #8 (constant generators, table 3-2)
        for i, o in enumerate(out):
            if isinstance(o, tuple) and o[:2] == ("m", "idx") and o[2] == _MSP_PC:
                out[i] = ("m", "sym", o[3])
            elif isinstance(o, tuple) and o[:2] == ("m", "idx") and o[2] == _MSP_SR:
                out[i] = ("m", "abs", o[3])
        return mn + size, out

    def generalise_seq(self, pseq):
        """ppci accepts the indexed mode X(R3) as a source; the architecture defines As=01 on R3 as the constant #1 WITHOUT an
        extension word, so the word ppci emits for X is executed as the next instruction."""
        for mn, ops, prov in pseq:
            for o in ops[:-1] if len(ops) == 2 else ops:
                if isinstance(o, tuple) and o[:2] == ("m", "idx") and o[2] == _MSP_CG:
                    return "indexed-source-on-r3/extension-word-emitted-for-constant-generator"
        return None


NORMS["msp430"] = Msp430Norm()


# ====================================================================== AVR
# AVR Instruction Set Manual (Atmel-0856): X = r27:r26, Y = r29:r28, Z = r31:r30; MOVW/ADIW/SBIW name the low register of the pair.

def _avr_regs():
    d = {}
    for i in range(32):
        d["r%d" % i] = ("r", "r", i)
    return d


_AVR_PAIRS = {"x": 26, "y": 28, "z": 30, "w": 24}


class AvrNorm(Norm):
    name = "avr"
    REGS = _avr_regs()
    SYN = {"brcs": "brlo", "brcc": "brsh"}

    def reg(self, word):
        if ":" in word:              # ppci names register pairs r3:r2; MOVW takes the low (even) register
            hi, lo = word.split(":", 1)
            a, b = self.REGS.get(hi), self.REGS.get(lo)
            if a is None or b is None or a[2] != b[2] + 1:
                return None
            return b
        return self.REGS.get(word)

    def ref_canon(self, mn, ops):
        if mn in ("ld", "st", "ldd", "std") and any(isinstance(o, int) for o in ops):
            raise Unparsed("LLVM 14 prints the pointer register of ld/st as a bare number")
        return mn, ops

    def operand(self, toks, side, mn):
        c = Cursor(toks)
        k, v = c.peek()
        # low(label) / high(label)
        if k == "w" and v in ("low", "high", "lo8", "hi8") and c.peek(1) == ("g", "("):
            c.next()
            c.next()
            if c.accept("L") is None:
                c.number()
            c.expect("g", ")")
            if not c.done():
                raise Unparsed("trailing tokens")
            return L
        if k == "g" and v == "<":
            # LLVM prints <unknown> for branch targets it cannot show
            return ("w", "unknown-target")
        if k == "g" and v == ".":
            c.next()
            n = c.number()
            if not c.done():
                raise Unparsed("trailing tokens")
            return n
        pre = bool(c.accept("g", "-"))
        k, v = c.peek()
        if k == "w" and v in _AVR_PAIRS and not (pre and False):
            c.next()
            post = bool(c.accept("g", "+"))
            disp = None
            if post and c.peek()[0] in ("n", "L"):
                disp = c.number()
                post = False
            if not c.done():
                raise Unparsed("trailing tokens")
            if mn in ("adiw", "sbiw", "movw") and not (pre or post) and disp is None:
                return ("r", "r", _AVR_PAIRS[v])
            if disp is not None:
                return ("m", v, "disp", disp)
            return ("m", v, "pre" if pre else ("post" if post else ""), 0)
        if pre:
            c.i -= 1
        if k == "w":
            r = self.reg(v)
            if r is None:
                raise Unparsed("unknown word %r" % v)
            c.next()
            if c.accept("g", ":"):
                t = c.expect("w")
                lo = self.reg(t[1])
                if lo is None or lo[2] != r[2] - 1:
                    raise Unparsed("register pair")
                r = lo
            if not c.done():
                raise Unparsed("trailing tokens")
            return r
        n = c.number()
        if not c.done():
            raise Unparsed("trailing tokens")
        return n

    def finish(self, mn, ops):
        ops = list(ops)
        mn = self.SYN.get(mn, mn)
        if mn in ("rjmp", "rcall", "brne", "breq", "brlt", "brge", "brlo", "brsh", "brmi", "brpl") and len(ops) == 1 \
                and ops[0] == ("w", "unknown-target"):
            ops = [0]
        # AVR instruction set manual: LSL Rd = ADD Rd,Rd; ROL Rd = ADC Rd,Rd; TST Rd = AND Rd,Rd; CLR Rd = EOR Rd,Rd
        one = {"lsl": "add", "rol": "adc", "tst": "and", "clr": "eor"}
        if mn in one and len(ops) == 1:
            mn, ops = one[mn], [ops[0], ops[0]]
        # LDD Rd, Y+0 is LD Rd, Y (same encoding)
        if mn in ("ldd", "std"):
            for i, o in enumerate(ops):
                if isinstance(o, tuple) and o[0] == "m" and o[2] == "disp" and o[3] == 0:
                    mn = "ld" if mn == "ldd" else "st"
                    ops[i] = ("m", o[1], "", 0)
        return mn, ops


NORMS["avr"] = AvrNorm()


# ====================================================================== M68K
# M68000 Family Programmer's Reference Manual: D0-D7, A0-A7 (A7 = SP); addressing modes Dn, An, (An), (An)+, -(An), (d16,An), (xxx).W,
# (xxx).L, #imm, (d16,PC).  ppci glues the size to the mnemonic (addl = ADD.L); MOVEA is MOVE with an address register destination.

def _m68k_regs():
    d = {}
    for i in range(8):
        d["d%d" % i] = ("r", "d", i)
        d["a%d" % i] = ("r", "a", i)
    d["sp"] = ("r", "a", 7)
    d["pc"] = ("r", "pc", 0)
    return d


_M68K_BASES = ("add", "adda", "and", "cmp", "cmpa", "eor", "move", "movea", "or", "sub", "suba", "neg", "not", "clr", "tst", "ext",
               "asl", "asr", "lsl", "lsr", "muls", "mulu", "divs", "divu")


class M68kNorm(Norm):
    name = "m68k"
    REGS = _m68k_regs()
    soft_split = False

    def reg_at(self, c):
        c.accept("g", "%")
        t = c.expect("w")
        r = self.reg(t[1])
        if r is None:
            raise Unparsed("unknown word %r" % t[1])
        return r

    def operand(self, toks, side, mn):
        c = Cursor(toks)
        k, v = c.peek()
        if k == "g" and v == "#":
            n = c.number()
            if not c.done():
                raise Unparsed("trailing tokens")
            return n
        if k == "g" and v == "=":
            c.next()
            c.expect("L")
            return L
        if k == "L":
            c.next()
            if not c.done():
                raise Unparsed("trailing tokens")
            return L
        if k == "g" and v == "-" and c.peek(1) == ("g", "("):
            c.next()
            c.next()
            r = self.reg_at(c)
            c.expect("g", ")")
            if not c.done():
                raise Unparsed("trailing tokens")
            return ("m", "pre", r, 0)
        if k == "g" and v == "(":
            c.next()
            k2, v2 = c.peek()
            if k2 in ("n", "L") or (k2 == "g" and v2 in "-+"):
                d = c.number()
                if c.accept("g", ","):
                    r = self.reg_at(c)
                    c.expect("g", ")")
                    if not c.done():
                        raise Unparsed("trailing tokens")
                    return ("m", "disp", r, d)
                c.expect("g", ")")
                size = "w"
                if c.accept("g", "."):
                    size = c.expect("w")[1]
                elif not c.done():
                    raise Unparsed("trailing tokens")
                if not c.done():
                    raise Unparsed("trailing tokens")
                return ("m", "abs" + size, d)
            r = self.reg_at(c)
            c.expect("g", ")")
            post = bool(c.accept("g", "+"))
            if not c.done():
                raise Unparsed("trailing tokens")
            return ("m", "post" if post else "ind", r, 0)
        if k == "g" and v == "%" or k == "w":
            r = self.reg_at(c)
            if not c.done():
                raise Unparsed("trailing tokens")
            return r
        if k == "g" and v == "$":
            c.next()
        n = c.number()
        if c.accept("g", "."):
            size = c.expect("w")[1]
            if not c.done():
                raise Unparsed("trailing tokens")
            return ("m", "abs" + size, n)
        if not c.done():
            raise Unparsed("trailing tokens")
        return n

    def finish(self, mn, ops):
        size = ""
        if "." in mn:
            mn, size = mn.split(".", 1)
        elif mn[-1:] in "bwl" and mn[:-1] in _M68K_BASES:
            mn, size = mn[:-1], mn[-1]
        if mn in ("movea", "adda", "suba", "cmpa"):
            mn = mn[:-1]
        bits = {"b": 8, "w": 16, "l": 32}.get(size)
        out = []
        for o in ops:
            if isinstance(o, int) and bits:
                o = signed(o, bits)
            elif isinstance(o, tuple) and o[0] == "m" and isinstance(o[-1], int):
                o = o[:-1] + (signed(o[-1], 16),)
            out.append(o)
        return mn + ("." + size if size else ""), out


NORMS["m68k"] = M68kNorm()
