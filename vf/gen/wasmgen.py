"""wasmgen - bounded-exhaustive WebAssembly module enumerator.

Own module AST (independent of ppci), rendered two ways by this file:

* `encode(mod)`            canonical binary (minimal LEB128, sections in order)
* `wat(mod, style)`        WebAssembly text: style "flat" (numeric indices, linear
                           instructions, separate import/export fields), "folded"
                           (named ids, folded instructions, named labels) or "inline"
                           (inline exports/imports, inline param/result type uses)

The binary encoder is not trusted by itself: checks validate its output with V8
(vf.oracles.node) before using it as a reference.

AST summary
-----------
Module(types=[FT], imports=[Imp], funcs=[Func], table=(min,max)|None, mem=(min,max)|None,
       globs=[Glob], exports=[(name, kind, index)], start=None|funcidx,
       elems=[(offset, [funcidx])], datas=[(offset, bytes)])
FT(params, results)                        tuples of "i32"|"i64"|"f32"|"f64"
Imp(mod, name, kind, desc)                 kind func: desc=typeidx; global: (vt, mut);
                                           memory/table: (min, max|None)
Func(ti, locals, body)                     body = list of instruction nodes
Glob(vt, mut, init)                        init = one instruction node (a const)
Instruction nodes:
  Ins(op, imm=None, kids=())               plain instruction; kids are its operand trees
  Blk(kind, bt, body)                      kind "block"|"loop"; bt None|"i32"|...
  If(bt, cond, then, els=None)             cond = list of nodes producing the i32
Extensions (second generation, all optional; a module that uses none of them encodes exactly as before):
  Module.customs = [(slot, name, payload)]   custom sections; slot 0..12 = position in SECTION_ORDER (0 before the type section,
                                             12 after the data section), emitted also when the neighbouring standard sections are absent
  Module.datacount = True|int                data-count section (section 12, between elem and code); True = len(datas)
  datas entries (offset, bytes): offset int (active, i32.const), an Ins (active, that constant expression) or None (passive)
  elems entries (offset, items): offset int | Ins (active), None (passive), "declare" (declarative); items = function indices, or
                                 None for ref.null (then the segment is written with element expressions)
  bulk-memory / reference-types instructions: memory.init/data.drop (imm data index), memory.copy, memory.fill, table.init/elem.drop
  (imm elem index), table.copy/grow/size/fill/get/set (table 0), ref.null (imm "func"|"extern"), ref.func (imm func index),
  ref.is_null, select.t (imm value type: the typed select); block types may be a type index (int) for multi-value blocks.
Immediates: local/global/func/label index (int); call_indirect: type index; br_table:
(list_of_labels, default); consts: signed int for i32/i64, *bit pattern* (int) for
f32/f64; loads/stores: (align_log2, offset).

Values in calls are typed pairs (vt, v) with the same convention (floats as bits).
"""
import struct
import itertools

I32, I64, F32, F64 = "i32", "i64", "f32", "f64"
VTS = (I32, I64, F32, F64)
VT_BYTE = {I32: 0x7F, I64: 0x7E, F32: 0x7D, F64: 0x7C, "funcref": 0x70, "externref": 0x6F}
PAGE = 65536


# ---------------------------------------------------------------- AST

class FT:
    __slots__ = ("params", "results")

    def __init__(self, params=(), results=()):
        self.params = tuple(params)
        self.results = tuple(results)

    def key(self):
        return (self.params, self.results)

    def __repr__(self):
        return "FT(%r,%r)" % (self.params, self.results)


class Imp:
    __slots__ = ("mod", "name", "kind", "desc")

    def __init__(self, mod, name, kind, desc):
        self.mod, self.name, self.kind, self.desc = mod, name, kind, desc


class Func:
    __slots__ = ("ti", "locals", "body")

    def __init__(self, ti, locals=(), body=()):
        self.ti, self.locals, self.body = ti, tuple(locals), list(body)


class Glob:
    __slots__ = ("vt", "mut", "init")

    def __init__(self, vt, mut, init):
        self.vt, self.mut, self.init = vt, mut, init


class Module:
    def __init__(self, types=(), imports=(), funcs=(), table=None, mem=None, globs=(), exports=(),
                 start=None, elems=(), datas=()):
        self.types = list(types)
        self.imports = list(imports)
        self.funcs = list(funcs)
        self.table = table
        self.mem = mem
        self.globs = list(globs)
        self.exports = list(exports)
        self.start = start
        self.elems = list(elems)
        self.datas = list(datas)
        self.customs = []
        self.datacount = None

    def n_imported(self, kind):
        return sum(1 for i in self.imports if i.kind == kind)

    def func_type(self, fidx):
        """FT of function index fidx (imports first)."""
        imps = [i for i in self.imports if i.kind == "func"]
        if fidx < len(imps):
            return self.types[imps[fidx].desc]
        return self.types[self.funcs[fidx - len(imps)].ti]

    def global_type(self, gidx):
        imps = [i for i in self.imports if i.kind == "global"]
        if gidx < len(imps):
            return imps[gidx].desc
        g = self.globs[gidx - len(imps)]
        return (g.vt, g.mut)


class Ins:
    __slots__ = ("op", "imm", "kids")

    def __init__(self, op, imm=None, kids=()):
        self.op, self.imm, self.kids = op, imm, tuple(kids)


class Blk:
    __slots__ = ("kind", "bt", "body")

    def __init__(self, kind, bt, body):
        self.kind, self.bt, self.body = kind, bt, list(body)


class If:
    __slots__ = ("bt", "cond", "then", "els")

    def __init__(self, bt, cond, then, els=None):
        self.bt, self.cond, self.then = bt, list(cond), list(then)
        self.els = None if els is None else list(els)


# ---------------------------------------------------------------- opcode tables (from the spec, MVP + sign-ext + sat-trunc)

def _numeric_table():
    t = []

    def run(start, names, params, result, prefix):
        for i, n in enumerate(names):
            t.append((prefix + "." + n, (start + i,), tuple(params), result))

    icmp = ["eq", "ne", "lt_s", "lt_u", "gt_s", "gt_u", "le_s", "le_u", "ge_s", "ge_u"]
    fcmp = ["eq", "ne", "lt", "gt", "le", "ge"]
    iun = ["clz", "ctz", "popcnt"]
    ibin = ["add", "sub", "mul", "div_s", "div_u", "rem_s", "rem_u", "and", "or", "xor", "shl", "shr_s", "shr_u", "rotl", "rotr"]
    fun = ["abs", "neg", "ceil", "floor", "trunc", "nearest", "sqrt"]
    fbin = ["add", "sub", "mul", "div", "min", "max", "copysign"]
    run(0x45, ["eqz"], [I32], I32, I32)
    run(0x46, icmp, [I32, I32], I32, I32)
    run(0x50, ["eqz"], [I64], I32, I64)
    run(0x51, icmp, [I64, I64], I32, I64)
    run(0x5B, fcmp, [F32, F32], I32, F32)
    run(0x61, fcmp, [F64, F64], I32, F64)
    run(0x67, iun, [I32], I32, I32)
    run(0x6A, ibin, [I32, I32], I32, I32)
    run(0x79, iun, [I64], I64, I64)
    run(0x7C, ibin, [I64, I64], I64, I64)
    run(0x8B, fun, [F32], F32, F32)
    run(0x92, fbin, [F32, F32], F32, F32)
    run(0x99, fun, [F64], F64, F64)
    run(0xA0, fbin, [F64, F64], F64, F64)
    conv = [
        (0xA7, "i32.wrap_i64", I64, I32), (0xA8, "i32.trunc_f32_s", F32, I32), (0xA9, "i32.trunc_f32_u", F32, I32),
        (0xAA, "i32.trunc_f64_s", F64, I32), (0xAB, "i32.trunc_f64_u", F64, I32),
        (0xAC, "i64.extend_i32_s", I32, I64), (0xAD, "i64.extend_i32_u", I32, I64),
        (0xAE, "i64.trunc_f32_s", F32, I64), (0xAF, "i64.trunc_f32_u", F32, I64),
        (0xB0, "i64.trunc_f64_s", F64, I64), (0xB1, "i64.trunc_f64_u", F64, I64),
        (0xB2, "f32.convert_i32_s", I32, F32), (0xB3, "f32.convert_i32_u", I32, F32),
        (0xB4, "f32.convert_i64_s", I64, F32), (0xB5, "f32.convert_i64_u", I64, F32),
        (0xB6, "f32.demote_f64", F64, F32),
        (0xB7, "f64.convert_i32_s", I32, F64), (0xB8, "f64.convert_i32_u", I32, F64),
        (0xB9, "f64.convert_i64_s", I64, F64), (0xBA, "f64.convert_i64_u", I64, F64),
        (0xBB, "f64.promote_f32", F32, F64),
        (0xBC, "i32.reinterpret_f32", F32, I32), (0xBD, "i64.reinterpret_f64", F64, I64),
        (0xBE, "f32.reinterpret_i32", I32, F32), (0xBF, "f64.reinterpret_i64", I64, F64),
        (0xC0, "i32.extend8_s", I32, I32), (0xC1, "i32.extend16_s", I32, I32),
        (0xC2, "i64.extend8_s", I64, I64), (0xC3, "i64.extend16_s", I64, I64), (0xC4, "i64.extend32_s", I64, I64),
    ]
    for b, n, p, r in conv:
        t.append((n, (b,), (p,), r))
    sat = ["i32.trunc_sat_f32_s", "i32.trunc_sat_f32_u", "i32.trunc_sat_f64_s", "i32.trunc_sat_f64_u",
           "i64.trunc_sat_f32_s", "i64.trunc_sat_f32_u", "i64.trunc_sat_f64_s", "i64.trunc_sat_f64_u"]
    for i, n in enumerate(sat):
        t.append((n, (0xFC, i), (F32 if "f32" in n else F64,), n[:3]))
    return t


NUMERIC = _numeric_table()                       # [(name, opcode bytes, params, result)]
NUMERIC_BY_NAME = {n: (b, p, r) for n, b, p, r in NUMERIC}
POST_MVP = {n for n, b, p, r in NUMERIC if b[0] in (0xFC,) or 0xC0 <= b[0] <= 0xC4}

# loads/stores: name -> (opcode, value type, access bytes)
LOADS = {
    "i32.load": (0x28, I32, 4), "i64.load": (0x29, I64, 8), "f32.load": (0x2A, F32, 4), "f64.load": (0x2B, F64, 8),
    "i32.load8_s": (0x2C, I32, 1), "i32.load8_u": (0x2D, I32, 1), "i32.load16_s": (0x2E, I32, 2), "i32.load16_u": (0x2F, I32, 2),
    "i64.load8_s": (0x30, I64, 1), "i64.load8_u": (0x31, I64, 1), "i64.load16_s": (0x32, I64, 2), "i64.load16_u": (0x33, I64, 2),
    "i64.load32_s": (0x34, I64, 4), "i64.load32_u": (0x35, I64, 4),
}
STORES = {
    "i32.store": (0x36, I32, 4), "i64.store": (0x37, I64, 8), "f32.store": (0x38, F32, 4), "f64.store": (0x39, F64, 8),
    "i32.store8": (0x3A, I32, 1), "i32.store16": (0x3B, I32, 2),
    "i64.store8": (0x3C, I64, 1), "i64.store16": (0x3D, I64, 2), "i64.store32": (0x3E, I64, 4),
}
SIMPLE = {"unreachable": 0x00, "nop": 0x01, "return": 0x0F, "drop": 0x1A, "select": 0x1B}
INDEXED = {"br": 0x0C, "br_if": 0x0D, "call": 0x10, "local.get": 0x20, "local.set": 0x21, "local.tee": 0x22,
           "global.get": 0x23, "global.set": 0x24}
CONSTS = {"i32.const": 0x41, "i64.const": 0x42, "f32.const": 0x43, "f64.const": 0x44}


def natural_align(name):
    size = (LOADS.get(name) or STORES.get(name))[2]
    return {1: 0, 2: 1, 4: 2, 8: 3}[size]


# ---------------------------------------------------------------- LEB128 (own implementation)

def uleb(v):
    assert v >= 0
    out = bytearray()
    while True:
        b = v & 0x7F
        v >>= 7
        if v:
            out.append(b | 0x80)
        else:
            out.append(b)
            return bytes(out)


def sleb(v):
    out = bytearray()
    while True:
        b = v & 0x7F
        v >>= 7
        if (v == 0 and not b & 0x40) or (v == -1 and b & 0x40):
            out.append(b)
            return bytes(out)
        out.append(b | 0x80)


# ---------------------------------------------------------------- binary encoder

def _bt(bt):
    if isinstance(bt, int):
        return sleb(bt)          # type index (s33)
    return b"\x40" if bt is None else bytes([VT_BYTE[bt]])


# 0xFC-prefixed bulk-memory / table instructions: name -> (sub-opcode, immediates layout)
FC_OPS = {"memory.init": (8, "x0"), "data.drop": (9, "x"), "memory.copy": (10, "00"), "memory.fill": (11, "0"), "table.init": (12, "x0"),
          "elem.drop": (13, "x"), "table.copy": (14, "00"), "table.grow": (15, "0"), "table.size": (16, "0"), "table.fill": (17, "0")}


def _enc_ins(n, out, marks=None):
    start = len(out)
    _enc_ins0(n, out, marks)
    if marks is not None:
        marks.append((start, len(out), n))


def _enc_ins0(n, out, marks):
    if isinstance(n, Blk):
        out.append(0x02 if n.kind == "block" else 0x03)
        out += _bt(n.bt)
        for k in n.body:
            _enc_ins(k, out, marks)
        out.append(0x0B)
        return
    if isinstance(n, If):
        for k in n.cond:
            _enc_ins(k, out, marks)
        out.append(0x04)
        out += _bt(n.bt)
        for k in n.then:
            _enc_ins(k, out, marks)
        if n.els is not None:
            out.append(0x05)
            for k in n.els:
                _enc_ins(k, out, marks)
        out.append(0x0B)
        return
    for k in n.kids:
        _enc_ins(k, out, marks)
    op = n.op
    if op in NUMERIC_BY_NAME:
        b = NUMERIC_BY_NAME[op][0]
        out.append(b[0])
        if len(b) > 1:
            out += uleb(b[1])
    elif op in SIMPLE:
        out.append(SIMPLE[op])
    elif op in INDEXED:
        out.append(INDEXED[op])
        out += uleb(n.imm)
    elif op == "i32.const" or op == "i64.const":
        out.append(CONSTS[op])
        out += sleb(n.imm)
    elif op == "f32.const":
        out.append(0x43)
        out += struct.pack("<I", n.imm)
    elif op == "f64.const":
        out.append(0x44)
        out += struct.pack("<Q", n.imm)
    elif op in LOADS or op in STORES:
        out.append((LOADS.get(op) or STORES.get(op))[0])
        out += uleb(n.imm[0])
        out += uleb(n.imm[1])
    elif op == "memory.size":
        out += b"\x3F\x00"
    elif op == "memory.grow":
        out += b"\x40\x00"
    elif op == "call_indirect":
        out.append(0x11)
        out += uleb(n.imm)
        out.append(0x00)
    elif op == "br_table":
        labels, default = n.imm
        out.append(0x0E)
        out += uleb(len(labels))
        for lab in labels:
            out += uleb(lab)
        out += uleb(default)
    elif op in FC_OPS:
        sub, layout = FC_OPS[op]
        out.append(0xFC)
        out += uleb(sub)
        for c in layout:
            out += uleb(n.imm) if c == "x" else b"\x00"
    elif op == "table.get" or op == "table.set":
        out.append(0x25 if op == "table.get" else 0x26)
        out += uleb(0)
    elif op == "ref.null":
        out += bytes([0xD0, 0x70 if n.imm == "func" else 0x6F])
    elif op == "ref.is_null":
        out.append(0xD1)
    elif op == "ref.func":
        out.append(0xD2)
        out += uleb(n.imm)
    elif op == "select.t":
        out += bytes([0x1C, 0x01, VT_BYTE[n.imm]])
    else:
        raise ValueError("unknown op " + op)


def _name(s):
    b = s.encode("utf-8")
    return uleb(len(b)) + b


def _limits(lim):
    mn, mx = lim
    if mx is None:
        return b"\x00" + uleb(mn)
    return b"\x01" + uleb(mn) + uleb(mx)


def _section(sid, payload):
    return bytes([sid]) + uleb(len(payload)) + payload


def _vec(items):
    return uleb(len(items)) + b"".join(items)


def _expr(nodes):
    out = bytearray()
    for n in nodes:
        _enc_ins(n, out)
    out.append(0x0B)
    return bytes(out)


SECTION_ORDER = (1, 2, 3, 4, 5, 6, 7, 8, 9, 12, 10, 11)       # canonical order of the standard sections; custom slot k = before SECTION_ORDER[k]
N_SLOTS = len(SECTION_ORDER) + 1


def _offset_expr(off):
    return _expr([off if isinstance(off, Ins) else Ins("i32.const", off)])


def _enc_elem(off, items):
    exprs = any(f is None for f in items)
    if exprs:
        vec = _vec([_expr([Ins("ref.null", "func") if f is None else Ins("ref.func", f)]) for f in items])
    else:
        vec = _vec([uleb(f) for f in items])
    if off is None:
        return (b"\x05\x70" if exprs else b"\x01\x00") + vec
    if off == "declare":
        return (b"\x07\x70" if exprs else b"\x03\x00") + vec
    return (b"\x04" if exprs else b"\x00") + _offset_expr(off) + vec


def _enc_data(off, d):
    if off is None:
        return b"\x01" + uleb(len(d)) + d
    return b"\x00" + _offset_expr(off) + uleb(len(d)) + d


def section_payloads(m):
    """{section id: payload} of the standard sections present in module AST m."""
    sec = {}
    if m.types:
        sec[1] = _vec([b"\x60" + _vec([bytes([VT_BYTE[p]]) for p in t.params]) + _vec([bytes([VT_BYTE[r]]) for r in t.results]) for t in m.types])
    if m.imports:
        items = []
        for i in m.imports:
            b = _name(i.mod) + _name(i.name)
            if i.kind == "func":
                b += b"\x00" + uleb(i.desc)
            elif i.kind == "table":
                b += b"\x01\x70" + _limits(i.desc)
            elif i.kind == "memory":
                b += b"\x02" + _limits(i.desc)
            else:
                b += b"\x03" + bytes([VT_BYTE[i.desc[0]], 1 if i.desc[1] else 0])
            items.append(b)
        sec[2] = _vec(items)
    if m.funcs:
        sec[3] = _vec([uleb(f.ti) for f in m.funcs])
    if m.table is not None:
        sec[4] = _vec([b"\x70" + _limits(m.table)])
    if m.mem is not None:
        sec[5] = _vec([_limits(m.mem)])
    if m.globs:
        sec[6] = _vec([bytes([VT_BYTE[g.vt], 1 if g.mut else 0]) + _expr([g.init]) for g in m.globs])
    if m.exports:
        kinds = {"func": 0, "table": 1, "memory": 2, "global": 3}
        sec[7] = _vec([_name(n) + bytes([kinds[k]]) + uleb(i) for n, k, i in m.exports])
    if m.start is not None:
        sec[8] = uleb(m.start)
    if m.elems:
        sec[9] = _vec([_enc_elem(off, fs) for off, fs in m.elems])
    dc = getattr(m, "datacount", None)
    if dc is not None and dc is not False:
        sec[12] = uleb(len(m.datas) if dc is True else dc)
    if m.funcs:
        bodies = []
        for f in m.funcs:
            runs = []
            for vt in f.locals:
                if runs and runs[-1][1] == vt:
                    runs[-1][0] += 1
                else:
                    runs.append([1, vt])
            b = _vec([uleb(c) + bytes([VT_BYTE[vt]]) for c, vt in runs]) + _expr(f.body)
            bodies.append(uleb(len(b)) + b)
        sec[10] = _vec(bodies)
    if m.datas:
        sec[11] = _vec([_enc_data(off, d) for off, d in m.datas])
    return sec


def custom_section(name, payload):
    return _section(0, _name(name) + payload)


def encode(m):
    """Canonical binary of module AST m."""
    out = bytearray(b"\x00asm\x01\x00\x00\x00")
    sec = section_payloads(m)
    customs = list(getattr(m, "customs", ()) or ())
    for k in range(N_SLOTS):
        for slot, name, payload in customs:
            if slot == k:
                out += custom_section(name, payload)
        if k < len(SECTION_ORDER) and SECTION_ORDER[k] in sec:
            out += _section(SECTION_ORDER[k], sec[SECTION_ORDER[k]])
    return bytes(out)


# ---------------------------------------------------------------- text rendering

def f32_text(bits):
    return _float_text(bits, 8, 23, "<I", "<f")


def f64_text(bits):
    return _float_text(bits, 11, 52, "<Q", "<d")


def _float_text(bits, ebits, mbits, ifmt, ffmt):
    sign = "-" if bits >> (ebits + mbits) else ""
    exp = (bits >> mbits) & ((1 << ebits) - 1)
    man = bits & ((1 << mbits) - 1)
    if exp == (1 << ebits) - 1:
        if man == 0:
            return sign + "inf"
        if man == 1 << (mbits - 1):
            return sign + "nan"
        return sign + "nan:0x%x" % man
    v = struct.unpack(ffmt, struct.pack(ifmt, bits))[0]
    return v.hex()          # exact hexadecimal float, e.g. -0x1.8000000000000p+1


def data_text(b):
    out = []
    for v in b:
        if 32 <= v < 127 and v not in (34, 92):
            out.append(chr(v))
        else:
            out.append("\\%02x" % v)
    return '"' + "".join(out) + '"'


class _Wat:
    def __init__(self, m, style):
        self.m = m
        self.style = style
        self.named = style in ("folded", "inline")
        self.folded = style in ("folded", "inline")
        self.lines = []
        self.labels = []
        self.nlabel = 0

    # -- identifiers
    def fid(self, i):
        return "$f%d" % i if self.named else str(i)

    def gid(self, i):
        return "$g%d" % i if self.named else str(i)

    def tid(self, i):
        return "$t%d" % i if self.named else str(i)

    def lid(self, i):
        # params are always referenced numerically (they may come from a (type) use); locals are named
        if self.named and i >= self.nparams:
            return "$l%d" % i
        return str(i)

    def label_ref(self, depth):
        if self.named and depth < len(self.labels):
            if self.style == "inline":
                # every label of this style is called $L: the name denotes the innermost enclosing one, outer ones are only reachable by number
                return "$L" if depth == 0 else str(depth)
            return self.labels[-1 - depth]
        return str(depth)

    def sig(self, ft, names=None):
        s = ""
        if ft.params:
            if names:
                s += "".join(" (param %s %s)" % (n, p) for n, p in zip(names, ft.params))
            else:
                s += " (param %s)" % " ".join(ft.params)
        if ft.results:
            s += " (result %s)" % " ".join(ft.results)
        return s

    def const_text(self, op, imm):
        if op == "f32.const":
            return f32_text(imm)
        if op == "f64.const":
            return f64_text(imm)
        # an integer constant may be written signed or unsigned, in decimal or hex: one spelling per style
        bits = 32 if op == "i32.const" else 64
        if self.style == "folded":
            return "0x%x" % (imm % (1 << bits))
        if self.style == "inline" and imm < 0:
            return str(imm + (1 << bits))
        return str(imm)

    def imm_text(self, n):
        op = n.op
        if op in ("local.get", "local.set", "local.tee"):
            return " " + self.lid(n.imm)
        if op in ("global.get", "global.set"):
            return " " + self.gid(n.imm)
        if op == "call":
            return " " + self.fid(n.imm)
        if op == "call_indirect":
            return " (type %s)" % self.tid(n.imm)
        if op in ("br", "br_if"):
            return " " + self.label_ref(n.imm)
        if op == "br_table":
            return "".join(" " + self.label_ref(x) for x in list(n.imm[0]) + [n.imm[1]])
        if op in CONSTS:
            return " " + self.const_text(op, n.imm)
        if op in LOADS or op in STORES:
            s = ""
            if n.imm[1]:
                s += " offset=%d" % n.imm[1]
            if n.imm[0] != natural_align(op):
                s += " align=%d" % (1 << n.imm[0])
            return s
        if op in ("memory.init", "data.drop", "elem.drop"):
            return " %d" % n.imm
        if op == "table.init":
            # flat: the abbreviation without table index; other styles: explicit table index
            return (" %d" % n.imm) if self.style == "flat" else (" 0 %d" % n.imm)
        if op in ("table.get", "table.set", "table.grow", "table.size", "table.fill"):
            return " 0" if self.style == "flat" else ""
        if op == "table.copy":
            return " 0 0" if self.style == "flat" else ""
        if op == "ref.null":
            return " " + n.imm
        if op == "ref.func":
            return " " + self.fid(n.imm)
        if op == "select.t":
            return " (result %s)" % n.imm
        return ""

    def op_text(self, n):
        return "select" if n.op == "select.t" else n.op

    def btype(self, bt):
        if isinstance(bt, int):
            if self.style == "flat":
                return " (type %d)" % bt
            return " (type %s)%s" % (self.tid(bt), self.sig(self.m.types[bt])) if self.style == "folded" else self.sig(self.m.types[bt])
        return "" if bt is None else " (result %s)" % bt

    def push_label(self):
        if self.named:
            name = "$L" if self.style == "inline" else "$L%d" % self.nlabel
            self.nlabel += 1
        else:
            name = None
        self.labels.append(name)
        return (" " + name) if name else ""

    # -- flat
    def flat(self, n, ind):
        pad = "  " * ind
        if isinstance(n, Blk):
            lab = self.push_label()
            self.lines.append(pad + n.kind + lab + self.btype(n.bt))
            for k in n.body:
                self.flat(k, ind + 1)
            self.labels.pop()
            self.lines.append(pad + "end")
        elif isinstance(n, If):
            for k in n.cond:
                self.flat(k, ind)
            lab = self.push_label()
            self.lines.append(pad + "if" + lab + self.btype(n.bt))
            for k in n.then:
                self.flat(k, ind + 1)
            if n.els is not None:
                self.lines.append(pad + "else")
                for k in n.els:
                    self.flat(k, ind + 1)
            self.labels.pop()
            self.lines.append(pad + "end")
        else:
            for k in n.kids:
                self.flat(k, ind)
            self.lines.append(pad + self.op_text(n) + self.imm_text(n))

    # -- folded
    def fold(self, n, ind):
        pad = "  " * ind
        if isinstance(n, Blk):
            lab = self.push_label()
            self.lines.append(pad + "(" + n.kind + lab + self.btype(n.bt))
            for k in n.body:
                self.fold(k, ind + 1)
            self.labels.pop()
            self.lines.append(pad + ")")
        elif isinstance(n, If):
            lab = self.push_label()
            self.lines.append(pad + "(if" + lab + self.btype(n.bt))
            # the condition is evaluated outside the label scope
            saved = self.labels.pop()
            for k in n.cond:
                self.fold(k, ind + 1)
            self.labels.append(saved)
            self.lines.append(pad + "  (then")
            for k in n.then:
                self.fold(k, ind + 2)
            self.lines.append(pad + "  )")
            if n.els is not None:
                self.lines.append(pad + "  (else")
                for k in n.els:
                    self.fold(k, ind + 2)
                self.lines.append(pad + "  )")
            self.labels.pop()
            self.lines.append(pad + ")")
        else:
            head = pad + "(" + self.op_text(n) + self.imm_text(n)
            if not n.kids:
                self.lines.append(head + ")")
            else:
                self.lines.append(head)
                for k in n.kids:
                    self.fold(k, ind + 1)
                self.lines.append(pad + ")")

    def body(self, nodes, ind):
        for n in nodes:
            (self.fold if self.folded else self.flat)(n, ind)

    def one(self, node):
        """A single instruction as one-line text (constant expressions)."""
        return "(" + self.op_text(node) + self.imm_text(node) + ")"

    def render(self):
        m, L = self.m, self.lines
        inline = self.style == "inline"
        L.append("(module")
        exp_of = {}
        if inline:
            for n, k, i in m.exports:
                exp_of.setdefault((k, i), []).append(n)

        def exports_inline(kind, idx):
            return "".join(' (export "%s")' % n for n in exp_of.get((kind, idx), []))

        omit_types = inline and _types_inlinable(m)
        if not omit_types:
            for i, t in enumerate(m.types):
                L.append("  (type %s(func%s))" % (("$t%d " % i) if self.named else "", self.sig(t)))

        def typeuse(ti, names=None):
            if omit_types:
                return self.sig(m.types[ti], names)
            return " (type %s)" % self.tid(ti)

        nf = ng = 0
        for imp in m.imports:
            if imp.kind == "func":
                if inline:
                    L.append('  (func %s%s (import "%s" "%s")%s)' % (self.fid(nf), exports_inline("func", nf), imp.mod, imp.name, typeuse(imp.desc)))
                else:
                    L.append('  (import "%s" "%s" (func %s%s))' % (imp.mod, imp.name, (self.fid(nf) + " ") if self.named else "", typeuse(imp.desc).strip()))
                nf += 1
            elif imp.kind == "global":
                gt = "(mut %s)" % imp.desc[0] if imp.desc[1] else imp.desc[0]
                if inline:
                    L.append('  (global %s%s (import "%s" "%s") %s)' % (self.gid(ng), exports_inline("global", ng), imp.mod, imp.name, gt))
                else:
                    L.append('  (import "%s" "%s" (global %s%s))' % (imp.mod, imp.name, (self.gid(ng) + " ") if self.named else "", gt))
                ng += 1
            elif imp.kind == "memory":
                lim = " ".join(str(x) for x in imp.desc if x is not None)
                if inline:
                    L.append('  (memory%s (import "%s" "%s") %s)' % (exports_inline("memory", 0), imp.mod, imp.name, lim))
                else:
                    L.append('  (import "%s" "%s" (memory %s))' % (imp.mod, imp.name, lim))
            else:
                lim = " ".join(str(x) for x in imp.desc if x is not None)
                if inline:
                    L.append('  (table%s (import "%s" "%s") %s funcref)' % (exports_inline("table", 0), imp.mod, imp.name, lim))
                else:
                    L.append('  (import "%s" "%s" (table %s funcref))' % (imp.mod, imp.name, lim))
        if m.table is not None:
            lim = " ".join(str(x) for x in m.table if x is not None)
            L.append("  (table%s %s funcref)" % (exports_inline("table", 0) if inline else "", lim))
        self.mem_abbrev = False
        if m.mem is not None:
            lim = " ".join(str(x) for x in m.mem if x is not None)
            if (inline and len(m.datas) == 1 and m.datas[0][0] == 0 and m.mem[0] == m.mem[1] == (len(m.datas[0][1]) + 65535) // 65536
                    and not any(i.kind == "memory" for i in m.imports)):
                # `(memory (data "..."))`: the abbreviation for a memory of exactly ceil(n / 64 Ki) pages with one active segment at offset 0
                self.mem_abbrev = True
                L.append("  (memory%s (data %s))" % (exports_inline("memory", 0), data_text(m.datas[0][1])))
            else:
                L.append("  (memory%s %s)" % (exports_inline("memory", 0) if inline else "", lim))
        for i, g in enumerate(m.globs):
            gi = ng + i
            gt = "(mut %s)" % g.vt if g.mut else g.vt
            parts = ["(global"]
            if self.named:
                parts.append(self.gid(gi))
            if inline and exp_of.get(("global", gi)):
                parts.append(exports_inline("global", gi).strip())
            parts += [gt, self.one(g.init) + ")"]
            L.append("  " + " ".join(parts))
        if not inline:
            for n, k, i in m.exports:
                ref = {"func": self.fid, "global": self.gid}.get(k, str)(i)
                L.append('  (export "%s" (%s %s))' % (n, k, ref))
        if m.start is not None:
            L.append("  (start %s)" % self.fid(m.start))
        for off, fs in m.elems:
            if off is None or off == "declare" or isinstance(off, Ins) or any(f is None for f in fs):
                if any(f is None for f in fs):
                    items = "funcref " + " ".join(("(ref.null func)" if f is None else "(ref.func %s)" % self.fid(f)) if self.style != "folded" else
                                                  ("(item ref.null func)" if f is None else "(item (ref.func %s))" % self.fid(f)) for f in fs)
                else:
                    items = ("func " + " ".join(self.fid(f) for f in fs)).strip()
                mode = "" if off is None else "declare " if off == "declare" else \
                    (("(offset %s) " if self.style == "folded" else "%s ") % self.one(off if isinstance(off, Ins) else Ins("i32.const", off)))
                L.append("  (elem %s%s)" % (mode, items))
            elif self.style == "flat":
                L.append("  (elem (i32.const %d) %s)" % (off, " ".join(self.fid(f) for f in fs)))
            elif self.style == "folded":
                L.append("  (elem (offset (i32.const %d)) func %s)" % (off, " ".join(self.fid(f) for f in fs)))
            else:
                L.append("  (elem (i32.const %d) func %s)" % (off, " ".join(self.fid(f) for f in fs)))
        for i, f in enumerate(m.funcs):
            fi = nf + i
            ft = m.types[f.ti]
            self.nparams = len(ft.params)
            self.labels = []
            head = "  (func"
            if self.named:
                head += " " + self.fid(fi)
            if inline:
                head += exports_inline("func", fi)
            head += typeuse(f.ti)
            if f.locals:
                if self.named:
                    head += "".join(" (local $l%d %s)" % (self.nparams + j, vt) for j, vt in enumerate(f.locals))
                else:
                    head += " (local %s)" % " ".join(f.locals)
            L.append(head)
            self.body(f.body, 2)
            L.append("  )")
        for off, d in ([] if self.mem_abbrev else m.datas):
            if off is None:
                L.append("  (data %s)" % data_text(d))
            elif isinstance(off, Ins):
                L.append(("  (data (offset %s) %s)" if self.style == "folded" else "  (data %s %s)") % (self.one(off), data_text(d)))
            elif self.style == "folded":
                L.append("  (data (offset (i32.const %d)) %s)" % (off, data_text(d)))
            else:
                L.append("  (data (i32.const %d) %s)" % (off, data_text(d)))
        L.append(")")
        return "\n".join(L) + "\n"


def _uses_call_indirect(nodes):
    for n in nodes:
        if isinstance(n, Blk):
            if isinstance(n.bt, int) or _uses_call_indirect(n.body):
                return True
        elif isinstance(n, If):
            if isinstance(n.bt, int) or _uses_call_indirect(n.cond) or _uses_call_indirect(n.then) or (n.els is not None and _uses_call_indirect(n.els)):
                return True
        else:
            if n.op == "call_indirect" or _uses_call_indirect(n.kids):
                return True
    return False


def _types_inlinable(m):
    """The type section may be left implicit when the types, in order, are exactly the distinct signatures in
    order of first use by imports (in order) then functions (in order) and nothing refers to a type by index."""
    seen = []
    for i in m.imports:
        if i.kind == "func":
            k = m.types[i.desc].key()
            if k not in seen:
                seen.append(k)
    # text order: imports are rendered first, then functions
    for f in m.funcs:
        k = m.types[f.ti].key()
        if k not in seen:
            seen.append(k)
        if _uses_call_indirect(f.body):
            return False
    return seen == [t.key() for t in m.types]


def wat(m, style="flat"):
    assert style in ("flat", "folded", "inline")
    return _Wat(m, style).render()


STYLES = ("flat", "folded", "inline")


def node_label(n):
    """Short vocabulary name of an instruction node (operator, block kind + block type)."""
    if isinstance(n, Blk):
        return "%s/%s" % (n.kind, n.bt or "void")
    if isinstance(n, If):
        return "%s/%s" % ("if-else" if n.els is not None else "if", n.bt or "void")
    return n.op


def locate(m, fidx, offset):
    """Instruction node of defined function fidx whose encoding contains byte `offset` of the function body
    (body = locals vector + expression), innermost first.  Returns None for the locals part / final end."""
    f = m.funcs[fidx]
    runs = []
    for vt in f.locals:
        if runs and runs[-1][1] == vt:
            runs[-1][0] += 1
        else:
            runs.append([1, vt])
    pre = len(_vec([uleb(c) + bytes([VT_BYTE[vt]]) for c, vt in runs]))
    if offset < pre:
        return None
    out, marks = bytearray(), []
    for n in f.body:
        _enc_ins(n, out, marks)
    off = offset - pre
    best = None
    for a, b, n in marks:
        if a <= off < b and (best is None or b - a < best[1] - best[0]):
            best = (a, b, n)
    if best is None:
        return None
    n = best[2]
    # the operand bytes of a plain instruction belong to its kids; if the offset is in a kid, that kid was chosen (smaller range)
    return n


def for_style(m, style):
    """The module whose canonical binary corresponds to wat(m, style).  Inline exports expand in place, so the export
    section follows the order of the exporting fields in the text (imports, table, memory, globals, functions)."""
    if style != "inline" or not m.exports:
        return m
    nf, ng = m.n_imported("func"), m.n_imported("global")
    order = []
    f = g = 0
    for imp in m.imports:
        if imp.kind == "func":
            order.append(("func", f))
            f += 1
        elif imp.kind == "global":
            order.append(("global", g))
            g += 1
        else:
            order.append((imp.kind, 0))
    if m.table is not None:
        order.append(("table", 0))
    if m.mem is not None:
        order.append(("memory", 0))
    order += [("global", ng + i) for i in range(len(m.globs))]
    order += [("func", nf + i) for i in range(len(m.funcs))]
    rank = {k: i for i, k in enumerate(order)}
    exports = sorted(m.exports, key=lambda e: rank[(e[1], e[2])])      # stable: same item keeps its relative order
    m2 = Module(m.types, m.imports, m.funcs, m.table, m.mem, m.globs, exports, m.start, m.elems, m.datas)
    m2.customs, m2.datacount = list(getattr(m, "customs", ())), getattr(m, "datacount", None)
    return m2


# ---------------------------------------------------------------- values

def f32_bits(x):
    return struct.unpack("<I", struct.pack("<f", x))[0]


def f64_bits(x):
    return struct.unpack("<Q", struct.pack("<d", x))[0]


def bits_f32(b):
    return struct.unpack("<f", struct.pack("<I", b))[0]


def bits_f64(b):
    return struct.unpack("<d", struct.pack("<Q", b))[0]


def int_alphabet(w, k):
    """V3 / V7 / V13 of DESIGN 3.1 for a w-bit integer (as signed values)."""
    mx, mn = (1 << (w - 1)) - 1, -(1 << (w - 1))
    v3 = [0, 1, -1]
    v7 = v3 + [mn, mx, 2, mn + 1]
    h = 1 << (w // 2)
    v13 = v7 + [h - 1, h + 1, int("55" * (w // 8), 16), int("AA" * (w // 8), 16) - (1 << w), w - 1, w, mx - 1]
    return {3: v3, 7: v7, 13: v13}[k]


def _fl(tier):
    base = [0.0, -0.0, 1.0, -1.0, 0.5, -0.5, 1.5, -1.5, 2.5, -2.5, 2.0 ** 31, 2.0 ** 63, float("inf"), float("-inf")]
    more = [-0.75, 0.75, 3.5, -3.5, -(2.0 ** 31), 2.0 ** 32, -(2.0 ** 63), 2.0 ** 64, 4294967296.0 - 1024, -2147483904.0,
            16777216.0, 1e10, -1e-3, 0.4999999701976776]
    return base + (more if tier != "quick" else [-0.75, 2.0 ** 32, -(2.0 ** 63)])


def float_alphabet(vt, tier="quick"):
    """Float boundary values as bit patterns (both NaN signs, a denormal, max)."""
    if vt == F32:
        bits = [f32_bits(x) for x in _fl(tier)]
        bits += [0x7FC00000, 0xFFC00000, 0x00000001, 0x7F7FFFFF, 0x3DCCCCCD, 0x4B800001]
        if tier != "quick":
            bits += [0x80000001, 0xFF7FFFFF, 0x4F000000 - 1, 0x4EFFFFFF, 0xCF000001, 0x3F7FFFFF, 0x4B000001, 0xBF7FFFFF]
    else:
        bits = [f64_bits(x) for x in _fl(tier)]
        bits += [0x7FF8000000000000, 0xFFF8000000000000, 0x0000000000000001, 0x7FEFFFFFFFFFFFFF,
                 f64_bits(0.1), f64_bits(2147483647.5), f64_bits(-2147483648.5), f64_bits(4294967295.5), f64_bits(-0.9999999),
                 0x3FF0000010000000, f64_bits(16777217.0)]
        if tier != "quick":
            bits += [0x8000000000000001, 0xFFEFFFFFFFFFFFFF, f64_bits(2147483648.0), f64_bits(-2147483649.0), f64_bits(4294967296.0),
                     0x43DFFFFFFFFFFFFF, 0x43EFFFFFFFFFFFFF, 0xC3E0000000000001, 0x3FF0000030000000, 0x3FEFFFFFFFFFFFFF,
                     0x4330000000000001, 0x47EFFFFFF0000000, 0x47F0000000000000, 0x36A0000000000000, 0x3690000000000000]
    seen, out = set(), []
    for b in bits:
        if b not in seen:
            seen.add(b)
            out.append(b)
    return out


def alphabet(vt, k=3, tier="quick"):
    """Typed boundary alphabet.  k in {3,7,13} selects the integer set; floats: k=3 -> {0,1,-1,nan...} small set."""
    if vt == I32:
        return int_alphabet(32, k)
    if vt == I64:
        return int_alphabet(64, k)
    if k == 3:
        conv = f32_bits if vt == F32 else f64_bits
        return [conv(0.0), conv(1.0), conv(-1.5), conv(-0.0), 0x7FC00000 if vt == F32 else 0x7FF8000000000000]
    return float_alphabet(vt, tier)


def arg_vectors(params, k=3, tier="quick"):
    return [tuple(zip(params, combo)) for combo in itertools.product(*[alphabet(p, k, tier) for p in params])]


# ---------------------------------------------------------------- small builders

def const(vt, v):
    return Ins(vt + ".const", v)


def i32c(v):
    return Ins("i32.const", v)


def lget(i):
    return Ins("local.get", i)


def zero(vt):
    return Ins(vt + ".const", 0)


def module_of_funcs(funcs, extra=None):
    """funcs: list of (FT, locals, body).  Builds a module with deduplicated types, every function exported as
    e<i>.  extra: dict with optional keys mem, table, globs, elems, datas, imports (list of (Imp with desc=FT for funcs)),
    exports (additional), start."""
    extra = extra or {}
    types, index = [], {}

    def ti(ft):
        k = ft.key()
        if k not in index:
            index[k] = len(types)
            types.append(ft)
        return index[k]

    imports = []
    for imp in extra.get("imports", ()):
        if imp.kind == "func":
            imports.append(Imp(imp.mod, imp.name, "func", ti(imp.desc)))
        else:
            imports.append(imp)
    nf = sum(1 for i in imports if i.kind == "func")
    fs = [Func(ti(ft), locs, body) for ft, locs, body in funcs]
    for ft in extra.get("types", ()):
        ti(ft)
    m = Module(types=types, imports=imports, funcs=fs, table=extra.get("table"), mem=extra.get("mem"), globs=extra.get("globs", ()),
               exports=[("e%d" % i, "func", nf + i) for i in range(len(fs)) if i not in extra.get("hidden", ())] + list(extra.get("exports", ())),
               start=extra.get("start"), elems=extra.get("elems", ()), datas=extra.get("datas", ()))
    m.type_index = index
    m.customs = list(extra.get("customs", ()))
    m.datacount = extra.get("datacount")
    return m


# ---------------------------------------------------------------- expression trees (depth <= 2)

MEM_IMM_VARIANTS = ("nat", "a0", "o1", "o255")       # natural alignment; align=1 byte; offset=1; offset=255 (two-byte LEB is o16384 in thorough)


def mem_imm(name, variant):
    nat = natural_align(name)
    return {"nat": (nat, 0), "a0": (0, 0), "o1": (nat, 1), "o255": (nat, 255), "o16384": (nat, 16384), "a0o7": (0, 7)}[variant]


def op_instances(tier="quick"):
    """Every value-producing operator instance: (tag, params, result, build(kids)->node)."""
    out = []
    for name, _, params, result in NUMERIC:
        out.append((name, params, result, (lambda kids, name=name: Ins(name, None, kids))))
    variants = MEM_IMM_VARIANTS if tier == "quick" else MEM_IMM_VARIANTS + ("o16384", "a0o7")
    for name, (_, vt, _sz) in LOADS.items():
        for v in variants:
            if v in ("a0", "a0o7") and natural_align(name) == 0:
                continue
            out.append((name + "@" + v, (I32,), vt, (lambda kids, name=name, v=v: Ins(name, mem_imm(name, v), kids))))
    out.append(("memory.size", (), I32, lambda kids: Ins("memory.size")))
    out.append(("memory.grow", (I32,), I32, lambda kids: Ins("memory.grow", None, kids)))
    for vt in VTS:
        out.append(("select." + vt, (vt, vt, I32), vt, lambda kids: Ins("select", None, kids)))
        out.append(("global.get." + vt, (), vt, (lambda kids, vt=vt: Ins("global.get", VTS.index(vt)))))
    return out


def stmt_instances(tier="quick"):
    """Operators without result: (tag, params, build(kids)->node)."""
    out = []
    variants = MEM_IMM_VARIANTS if tier == "quick" else MEM_IMM_VARIANTS + ("o16384", "a0o7")
    for name, (_, vt, _sz) in STORES.items():
        for v in variants:
            if v in ("a0", "a0o7") and natural_align(name) == 0:
                continue
            out.append((name + "@" + v, (I32, vt), (lambda kids, name=name, v=v: Ins(name, mem_imm(name, v), kids))))
    for vt in VTS:
        out.append(("drop." + vt, (vt,), lambda kids: Ins("drop", None, kids)))
        out.append(("global.set." + vt, (vt,), (lambda kids, vt=vt: Ins("global.set", VTS.index(vt), kids))))
    return out


# module environment for expression-tree functions: 4 mutable globals (one per type), one memory page
def tree_env():
    return {"mem": (1, None), "globs": [Glob(vt, True, zero(vt)) for vt in VTS],
            "exports": [("mem", "memory", 0)] + [("g_" + vt, "global", i) for i, vt in enumerate(VTS)]}


def _leaf_func(params_needed, result, build):
    """Function whose body applies build() to local.get leaves."""
    kids = [lget(i) for i in range(len(params_needed))]
    return FT(params_needed, (result,) if result else ()), (), [build(kids)]


def _consumers(tier):
    ops = op_instances(tier)
    stmts = stmt_instances(tier)
    return ops, stmts, [(t, p, r, b) for t, p, r, b in ops] + [(t, p, None, b) for t, p, b in stmts]


def tree_groups(tier="quick"):
    """Group keys partitioning the expression-tree enumeration (small, picklable work items).

    ("d1",) depth-1 trees and constants; ("d2", i) depth-2 trees whose outer operator is consumer i with exactly one
    inner operator; thorough adds ("d2b", i): two-operand consumer i with both operands inner operators."""
    _, _, consumers = _consumers(tier)
    groups = [("d1",)]
    groups += [("d2", i) for i, c in enumerate(consumers) if c[1]]
    if tier == "thorough":
        groups += [("d2b", i) for i, c in enumerate(consumers) if len(c[1]) == 2]
    return groups


def tree_functions(tier="quick", group=None):
    """Yield (tag, FT, locals, body) for every well-typed tree of depth <= 2 in the tier's bound, simplest first
    (all groups, or only the given group of tree_groups()).

    depth 1: op(leaves) with leaves = parameters; constants over the LEB / float boundary alphabets.
    depth 2 quick: for each outer op and each operand position, every inner op of matching result type (other
      operands are leaves).  thorough additionally: two-operand outer ops with *both* operands inner ops (at most
      3 leaves).  Statements (stores, drop, global.set) get the same treatment and return nothing."""
    if group is None:
        for g in tree_groups(tier):
            for x in tree_functions(tier, g):
                yield x
        return
    ops, stmts, consumers = _consumers(tier)
    by_result = {vt: [o for o in ops if o[2] == vt] for vt in VTS}
    if group[0] == "d1":
        for tag, params, result, build in ops:
            yield ("d1:" + tag,) + _leaf_func(params, result, build)
        for tag, params, build in stmts:
            yield ("d1:" + tag,) + _leaf_func(params, None, build)
        # local.set / local.tee / return / nop around a leaf
        for vt in VTS:
            yield ("d1:local.tee." + vt, FT((vt,), (vt,)), (vt,), [Ins("local.tee", 1, [lget(0)])])
            yield ("d1:local.set." + vt, FT((vt,), (vt,)), (I32, vt), [Ins("local.set", 2, [lget(0)]), Ins("nop"), lget(2)])
            yield ("d1:return." + vt, FT((vt,), (vt,)), (), [Ins("return", None, [lget(0)])])
        for vt, vals in const_alphabets(tier).items():
            for v in vals:
                yield ("const:%s:%d" % (vt, v), FT((), (vt,)), (), [const(vt, v)])
        return
    otag, oparams, oresult, obuild = consumers[group[1]]
    if group[0] == "d2":
        for pos, pt in enumerate(oparams):
            for itag, iparams, _ir, ibuild in by_result[pt]:
                params = list(oparams[:pos]) + list(iparams) + list(oparams[pos + 1:])
                kids, nxt = [], 0
                for j in range(len(oparams)):
                    if j == pos:
                        kids.append(ibuild([lget(nxt + q) for q in range(len(iparams))]))
                        nxt += len(iparams)
                    else:
                        kids.append(lget(nxt))
                        nxt += 1
                yield ("d2:%s[%d<-%s]" % (otag, pos, itag), FT(params, (oresult,) if oresult else ()), (), [obuild(kids)])
        return
    assert group[0] == "d2b" and len(oparams) == 2
    for a in by_result[oparams[0]]:
        for b in by_result[oparams[1]]:
            na, nb = len(a[1]), len(b[1])
            if na + nb > 3:
                continue        # keeps the V3 argument product at <= 27 (125 with floats)
            params = list(a[1]) + list(b[1])
            ka = a[3]([lget(q) for q in range(na)])
            kb = b[3]([lget(na + q) for q in range(nb)])
            yield ("d2:%s[%s,%s]" % (otag, a[0], b[0]), FT(params, (oresult,) if oresult else ()), (), [obuild([ka, kb])])


def const_alphabets(tier="quick"):
    i32s = [0, 1, -1, 63, 64, -64, -65, 127, 128, 8191, 8192, -8192, -8193, 2 ** 31 - 1, -2 ** 31, 0x0FFFFFFF, -0x08000001]
    i64s = i32s + [2 ** 31, -2 ** 31 - 1, 2 ** 32, 2 ** 34 - 1, 2 ** 34, 2 ** 41, -2 ** 41 - 1, 2 ** 48 - 1, 2 ** 55, 2 ** 62 - 1, 2 ** 62, -2 ** 62 - 1, 2 ** 63 - 1, -2 ** 63]
    f32s = [f32_bits(x) for x in (0.0, -0.0, 1.0, -1.5, 0.1, 1e10, float("inf"), float("-inf"))] + [0x7FC00000, 0xFFC00000, 0x7FA00000, 0x7FC00001, 1, 0x7F7FFFFF]
    f64s = [f64_bits(x) for x in (0.0, -0.0, 1.0, -1.5, 0.1, 1e10, 1e300, float("inf"), float("-inf"))] + \
           [0x7FF8000000000000, 0xFFF8000000000000, 0x7FF4000000000000, 0x7FF8000000000001, 1, 0x7FEFFFFFFFFFFFFF]
    return {I32: i32s, I64: i64s, F32: f32s, F64: f64s}


# ---------------------------------------------------------------- control skeletons

class _Sites:
    """Hands out marker bits, condition bits and distinct result values for one skeleton."""

    def __init__(self):
        self.marker = 0
        self.cond = 0
        self.val = 0
        self.uses_index = False

    def mark(self):
        k = self.marker
        self.marker += 1
        return Ins("global.set", 0, [Ins("i32.or", None, [Ins("global.get", 0), i32c(1 << k)])])

    def condition(self):
        j = self.cond
        self.cond += 1
        if j == 0:
            return Ins("i32.and", None, [lget(0), i32c(1)])
        return Ins("i32.and", None, [Ins("i32.shr_u", None, [lget(0), i32c(j)]), i32c(1)])

    def value(self, vt):
        self.val += 1
        if vt == I32:
            return i32c(10 + self.val)
        return const(F64, f64_bits(self.val + 0.5))

    def index(self):
        self.uses_index = True
        return lget(1)


# helper functions present in every skeleton module (function indices 0..2, table [0,1,2,skeleton...])
#   f0: () -> ()      trace |= 0x10000
#   f1: (i32) -> i32  returns x + 100, trace |= 0x20000
#   f2: () -> f64     returns 2.5,  trace |= 0x40000
SK_T_VOID, SK_T_I2I, SK_T_F64 = FT((), ()), FT((I32,), (I32,)), FT((), (F64,))
LOOP_LIMIT = 3


def _guard():
    """counter guard for backward branches: ++c < LOOP_LIMIT   (c is local 2)"""
    return Ins("i32.lt_u", None, [Ins("local.tee", 2, [Ins("i32.add", None, [lget(2), i32c(1)])]), i32c(LOOP_LIMIT)])


def _helper_funcs():
    def mark(bit):
        return Ins("global.set", 0, [Ins("i32.or", None, [Ins("global.get", 0), i32c(bit)])])
    return [(SK_T_VOID, (), [mark(0x10000)]),
            (SK_T_I2I, (), [mark(0x20000), Ins("i32.add", None, [lget(0), i32c(100)])]),
            (SK_T_F64, (), [mark(0x40000), const(F64, f64_bits(2.5))])]


def _void_items(d, labels, fres, want_types):
    """Stack-neutral (or diverging) items: list of (tag, builder(sites) -> node list).

    labels: innermost first, entries (kind, brtype) with kind in block/loop/func."""
    items = [("none", lambda s: [])]
    for k, (kind, bt) in enumerate(labels):
        if kind == "loop":
            # backward branches are always guarded by the iteration counter
            items.append(("br_if%d.loop" % k, lambda s, k=k: [Ins("br_if", k, [_guard()])]))
            if d >= 1:
                items.append(("ifbr%d.loop" % k, lambda s, k=k: [If(None, [_guard()], [Ins("br", k + 1)])]))
            exits = [j for j, (kk, bb) in enumerate(labels) if kk != "loop" and bb is None]
            if exits:
                j = exits[0]
                items.append(("br_table[%d,%d]d%d.loop" % (j, k, j), lambda s, k=k, j=j: [Ins("br_table", ([j, k], j), [_guard()])]))
                items.append(("br_table[%d]d%d.loop" % (k, j), lambda s, k=k, j=j: [Ins("br_table", ([k], j), [Ins("i32.eqz", None, [_guard()])])]))
        else:
            def br(s, k=k, bt=bt):
                return [Ins("br", k, [s.value(bt)] if bt else [])]

            def br_if(s, k=k, bt=bt):
                if bt:
                    return [Ins("drop", None, [Ins("br_if", k, [s.value(bt), s.condition()])])]
                return [Ins("br_if", k, [s.condition()])]
            items.append(("br%d" % k, br))
            items.append(("br_if%d" % k, br_if))
    # br_table over forward labels of equal branch type
    fwd = [(k, bt) for k, (kind, bt) in enumerate(labels) if kind != "loop"]
    for bt in (None, I32, F64):
        same = [k for k, b in fwd if b == bt]
        if not same:
            continue
        combos = set()
        for a in same:
            for b in same:
                for dflt in same:
                    combos.add(((a, b), dflt))
        for dflt in same:
            combos.add(((), dflt))
        for labs, dflt in sorted(combos):
            if len(same) > 1 and len(set(labs) | {dflt}) == 1 and labs:
                continue

            def brt(s, labs=labs, dflt=dflt, bt=bt):
                kids = ([s.value(bt)] if bt else []) + [s.index()]
                return [Ins("br_table", (list(labs), dflt), kids)]
            items.append(("br_table%s d%d" % (list(labs), dflt), brt))
    items.append(("return", lambda s: [Ins("return", None, [s.value(fres)] if fres else [])]))
    items.append(("call", lambda s: [Ins("call", 0)]))
    items.append(("call_indirect", lambda s: [Ins("call_indirect", "void", [s.index()])]))
    if d >= 1:
        items.append(("if-unreachable", lambda s: [If(None, [s.condition()], [Ins("unreachable")])]))
        for tag, build in _constructs(d, None, labels, fres, want_types):
            items.append((tag, build))
        for vt in want_types:
            if vt is None:
                continue
            for tag, build in _constructs(d, vt, labels, fres, want_types):
                items.append(("drop(" + tag + ")", lambda s, build=build: build(s) + [Ins("drop")]))
    else:
        items.append(("unreachable", lambda s: [Ins("unreachable")]))
    return items


def _value_items(d, want, labels, fres, want_types):
    items = []
    if want == I32:
        items.append(("call-i32", lambda s: [Ins("call", 1, [s.value(I32)])]))
        items.append(("call_indirect-i32", lambda s: [Ins("call_indirect", "i2i", [s.value(I32), s.index()])]))
    else:
        items.append(("call-f64", lambda s: [Ins("call", 2)]))
        items.append(("call_indirect-f64", lambda s: [Ins("call_indirect", "f64", [s.index()])]))
    items.append(("select", lambda s: [Ins("select", None, [s.value(want), s.value(want), s.condition()])]))
    if d >= 1:
        items.extend(_constructs(d, want, labels, fres, want_types))
    return items


def _constructs(d, bt, labels, fres, want_types):
    """block / loop / if / if-else with block type bt whose bodies are sequences of depth d-1."""
    out = []
    inner_fwd = [("block", bt)] + labels
    inner_loop = [("loop", None)] + labels
    for tag, build in _sequences(d - 1, bt, inner_fwd, fres, want_types):
        out.append(("block{%s}" % tag, lambda s, build=build: [Blk("block", bt, build(s))]))
    for tag, build in _sequences(d - 1, bt, inner_loop, fres, want_types):
        out.append(("loop{%s}" % tag, lambda s, build=build: [Blk("loop", bt, build(s))]))
    seqs = _sequences(d - 1, bt, inner_fwd, fres, want_types)
    if bt is None:
        for tag, build in seqs:
            out.append(("if{%s}" % tag, lambda s, build=build: [If(None, [s.condition()], build(s))]))
    # if-else: the else arm is the plain sequence (first entry) unless the then arm is plain
    plain = seqs[0]
    for tag, build in seqs:
        out.append(("ifelse{%s|plain}" % tag, lambda s, build=build: _ifelse(s, bt, build, plain[1])))
    for tag, build in seqs[1:]:
        out.append(("ifelse{plain|%s}" % tag, lambda s, build=build: _ifelse(s, bt, plain[1], build)))
    return out


def _ifelse(s, bt, then_build, else_build):
    c = s.condition()
    t = then_build(s)
    e = else_build(s)
    return [If(bt, [c], t, e)]


def _sequences(d, want, labels, fres, want_types):
    """Sequences producing `want`: marker; item; marker; value   |   marker; value-item."""
    out = []
    for tag, build in _void_items(d, labels, fres, want_types):
        def seq(s, build=build):
            a = s.mark()
            x = build(s)
            b = s.mark()
            return [a] + x + [b] + ([s.value(want)] if want else [])
        out.append((tag, seq))
    if want:
        for tag, build in _value_items(d, want, labels, fres, want_types):
            out.append((tag, lambda s, build=build: [s.mark()] + build(s)))
    return out


def skeleton_functions(depth=1, want_types=(None, I32, F64)):
    """Yield (tag, FT, locals, body, n_cond_bits, uses_index) for every control skeleton of nesting depth <= depth.

    The skeleton function has signature (i32 x, i32 y) -> R: bit j of x decides the j-th condition, y is the
    br_table / call_indirect index; local 2 is the loop counter; global 0 collects the trace of visited markers."""
    for fres in want_types:
        labels = [("func", fres)]
        for tag, build in _sequences(depth, fres, labels, fres, want_types):
            s = _Sites()
            body = build(s)
            ft = FT((I32, I32), (fres,) if fres else ())
            yield ("sk:%s:%s" % (fres or "void", tag), ft, (I32,), body, s.cond, s.uses_index)


def skeleton_module(funcs, with_reset=False):
    """Module for a list of skeleton functions [(FT, locals, body)]: helpers f0..f2, table [f0,f1,f2,sk0..], trace global
    exported as "g", skeletons exported as e3, e4, ... (function index = 3 + i).  with_reset appends an exported
    function "reset" (last function index, also last table element) that clears the trace global."""
    helpers = _helper_funcs()
    allf = helpers + list(funcs)
    exports = [("g", "global", 0)]
    hidden = (0, 1, 2)
    if with_reset:
        allf.append((SK_T_VOID, (), [Ins("global.set", 0, [i32c(0)])]))
        exports.append(("reset", "func", len(allf) - 1))
        hidden = (0, 1, 2, len(allf) - 1)
    m = module_of_funcs(allf, {"globs": [Glob(I32, True, i32c(0))], "exports": exports,
                               "table": (len(allf), len(allf)), "elems": [(0, list(range(len(allf))))], "hidden": hidden})
    tix = {"void": m.type_index[SK_T_VOID.key()], "i2i": m.type_index[SK_T_I2I.key()], "f64": m.type_index[SK_T_F64.key()]}
    for f in m.funcs:
        _patch_ci(f.body, tix)
    return m


def _patch_ci(nodes, tix):
    for i, n in enumerate(nodes):
        if isinstance(n, Blk):
            _patch_ci(n.body, tix)
        elif isinstance(n, If):
            _patch_ci(n.cond, tix)
            _patch_ci(n.then, tix)
            if n.els is not None:
                _patch_ci(n.els, tix)
        else:
            if n.op == "call_indirect" and isinstance(n.imm, str):
                n.imm = tix[n.imm]
            kids = list(n.kids)
            _patch_ci(kids, tix)
            n.kids = tuple(kids)


def skeleton_args(ncond, uses_index, rich=False):
    xs = list(range(1 << ncond)) if ncond else [0]
    ys = ([0, 1, 2, 3, 4, -1] if rich else [0, 1, 2, -1]) if uses_index else [0]
    return [((I32, x), (I32, y)) for x in xs for y in ys]


# ---------------------------------------------------------------- module structure

STRUCT_OPTIONS = {
    "imports": [(), ("func",), ("gi",), ("gm",), ("mem",), ("tab",), ("func", "func2"), ("func", "gi"), ("func", "mem"), ("func", "tab"),
                ("gi", "gm"), ("gi", "mem"), ("mem", "tab"), ("gf",)],
    "mem": ["none", "1", "1-2", "0", "0-0", "2-65536", "1-1", "2-2"],
    "data": ["none", "one", "two", "esc", "page", "two-pages", "empty"],
    "table": ["none", "2", "2-2@1", "0", "3-8@0+2"],
    "globals": ["none", "i32", "i32m", "i64", "i64m", "f32", "f32m", "f64", "f64m", "two", "fromimport"],
    "start": ["none", "start"],
    "locals": ["none", "i32", "i32 i32 f64", "f64 i32 f64 f64 i64", "many"],
    "exports": ["funcs", "all", "twice", "names"],
}


def structure_module(cfg):
    """Build a module from a choice per STRUCT_OPTIONS key.  Returns None for inconsistent combinations."""
    imports = []
    t_void = FT((), ())
    t_f = FT((I32,), (I32,))
    gi = 0
    for it in cfg["imports"]:
        if it == "func":
            imports.append(Imp("env", "f", "func", t_f))
        elif it == "func2":
            imports.append(Imp("env", "v", "func", t_void))
        elif it == "gi":
            imports.append(Imp("env", "gi", "global", (I32, False)))
        elif it == "gm":
            imports.append(Imp("env", "gm", "global", (I64, True)))
        elif it == "gf":
            imports.append(Imp("env", "gf", "global", (F64, False)))
        elif it == "mem":
            imports.append(Imp("env", "mem", "memory", (1, 2)))
        elif it == "tab":
            imports.append(Imp("env", "tab", "table", (4, None)))
    has_imem = "mem" in cfg["imports"]
    has_itab = "tab" in cfg["imports"]
    n_ig = sum(1 for i in imports if i.kind == "global")
    n_if = sum(1 for i in imports if i.kind == "func")
    mem = {"none": None, "1": (1, None), "1-2": (1, 2), "0": (0, None), "0-0": (0, 0), "2-65536": (2, 65536), "1-1": (1, 1), "2-2": (2, 2)}[cfg["mem"]]
    if has_imem:
        if cfg["mem"] != "none":
            return None
    have_mem = has_imem or (mem is not None and mem[0] >= 1)
    datas = []
    if cfg["data"] == "empty":
        # a zero-length segment at offset 0 is valid for any defined or imported memory, also one of 0 pages
        if mem is None and not has_imem:
            return None
        datas = [(0, b"")]
    elif cfg["data"] != "none":
        if not have_mem:
            return None
        if cfg["data"] in ("page", "two-pages"):
            # exactly one / two pages of data at offset 0 (the boundary of the `(memory (data ...))` abbreviation's page count)
            n = 65536 if cfg["data"] == "page" else 131072
            if not has_imem and mem[0] * 65536 < n:
                return None
            if has_imem and n > 65536:
                return None
            datas = [(0, bytes((7 * i + 3) % 251 % 95 + 32 for i in range(n)))]
        elif cfg["data"] == "one":
            datas = [(0, b"abc")]
        elif cfg["data"] == "two":
            datas = [(8, b"\x01\x02"), (65530, b"zzzzzz")]
        else:
            datas = [(130, bytes([0, 34, 92, 10, 9, 39, 127, 128, 255]) + b" a;(")]
    table = {"none": None, "2": (2, None), "2-2@1": (2, 2), "0": (0, None), "3-8@0+2": (3, 8)}[cfg["table"]]
    if has_itab and cfg["table"] != "none":
        return None
    globs = []
    g = cfg["globals"]
    gvals = {I32: -7, I64: 2 ** 40 + 5, F32: f32_bits(1.5), F64: f64_bits(-2.25)}
    if g == "two":
        globs = [Glob(I32, True, i32c(5)), Glob(F64, False, const(F64, f64_bits(0.5)))]
    elif g == "fromimport":
        if "gi" not in cfg["imports"]:
            return None
        globs = [Glob(I32, False, Ins("global.get", 0))]
    elif g != "none":
        vt = g[:3]
        globs = [Glob(vt, g.endswith("m"), const(vt, gvals[vt]))]
    locs = {"none": (), "i32": (I32,), "i32 i32 f64": (I32, I32, F64), "f64 i32 f64 f64 i64": (F64, I32, F64, F64, I64),
            "many": (I32,) * 130}[cfg["locals"]]
    # function 0: (i32)->i32 touching what exists; function 1: ()->() ; function 2 only with tables
    body = [lget(0)]
    if locs:
        last = 1 + len(locs) - 1
        if locs[-1] == I32:
            body = [Ins("local.set", last, [lget(0)]), lget(last)]
        else:
            body = [Ins("local.set", last, [const(locs[-1], 0)]), lget(0)]
    if "func" in cfg["imports"]:
        body = [Ins("call", 0, body)] if len(body) == 1 else body + [Ins("call", 0)]
    if have_mem:
        body = body + [Ins("i32.load8_u", (0, 0), [i32c(1)]), Ins("i32.add")]
    if globs and globs[0].vt == I32:
        body = body + [Ins("global.get", n_ig), Ins("i32.add")]
    f0 = (t_f, locs, body)
    vbody = []
    if globs and globs[0].mut and globs[0].vt == I32:
        vbody = [Ins("global.set", n_ig, [Ins("i32.add", None, [Ins("global.get", n_ig), i32c(1)])])]
    elif have_mem:
        vbody = [Ins("i32.store8", (0, 0), [i32c(3), i32c(0x5A)])]
    f1 = (t_void, (), vbody)
    funcs = [f0, f1]
    elems = []
    if table is not None or has_itab:
        f2 = (t_f, (), [Ins("call_indirect", "tf", [lget(0), Ins("i32.and", None, [lget(0), i32c(1)])])])
        funcs.append(f2)
        if cfg["table"] == "2":
            elems = [(0, [n_if + 0, n_if + 0])]
        elif cfg["table"] == "2-2@1":
            elems = [(1, [n_if + 0])]
        elif cfg["table"] == "3-8@0+2":
            elems = [(0, [n_if + 0]), (2, [n_if + 0, ])]
        elif has_itab:
            elems = [(0, [n_if + 0, n_if + 0])]
    exports = []
    ex = cfg["exports"]
    if ex in ("all", "twice", "names"):
        if mem is not None:
            exports.append(("memory", "memory", 0))
        if table is not None:
            exports.append(("table", "table", 0))
        for i, gl in enumerate(globs):
            exports.append(("glob%d" % i, "global", n_ig + i))
    if ex not in ("all", "twice", "names") and mem is not None and (cfg["mem"] in ("1-1", "2-2") or cfg["data"] in ("page", "two-pages", "empty")):
        # the page count a `(memory (data ...))` abbreviation gives is only observable through the exported memory
        exports.append(("memory", "memory", 0))
    if ex == "twice":
        exports.append(("again", "func", n_if))
    if ex == "names":
        exports.append(("a b", "func", n_if))
        exports.append(("ü", "func", n_if + 1))
        exports.append(("", "func", n_if + 1))
    start = None
    if cfg["start"] == "start":
        start = n_if + 1
    m = module_of_funcs(funcs, {"imports": imports, "mem": mem, "table": table, "globs": globs, "datas": datas, "elems": elems,
                                "exports": exports, "start": start})
    tix = {"tf": m.type_index[t_f.key()]}
    for f in m.funcs:
        _patch_ci(f.body, tix)
    return m


def structure_configs(tier="quick"):
    """quick: base, every single deviation from the base and every pair of deviations; thorough: the full product."""
    keys = list(STRUCT_OPTIONS)
    base = {k: STRUCT_OPTIONS[k][0] for k in keys}
    if tier == "thorough":
        for combo in itertools.product(*[STRUCT_OPTIONS[k] for k in keys]):
            yield dict(zip(keys, combo))
        return
    yield dict(base)
    for k in keys:
        for v in STRUCT_OPTIONS[k][1:]:
            c = dict(base)
            c[k] = v
            yield c
    for k1, k2 in itertools.combinations(keys, 2):
        for v1 in STRUCT_OPTIONS[k1][1:]:
            for v2 in STRUCT_OPTIONS[k2][1:]:
                c = dict(base)
                c[k1] = v1
                c[k2] = v2
                yield c


def import_spec(m):
    """Description of what a host must provide for module m (consumed by vf.oracles.node and by the ppci side).

    [{"mod","name","kind", and for func: "params","result"; global: "type","mut","value"; memory/table: "min","max"}]
    Host functions compute  result = 1 + sum((i+2) * arg_i)  in the result type (wrapping for ints)."""
    out = []
    for i in m.imports:
        d = {"mod": i.mod, "name": i.name, "kind": i.kind}
        if i.kind == "func":
            ft = m.types[i.desc]
            d["params"] = list(ft.params)
            d["result"] = ft.results[0] if ft.results else None
        elif i.kind == "global":
            d["type"], d["mut"] = i.desc[0], bool(i.desc[1])
            d["value"] = {I32: 41, I64: 2 ** 33 + 1, F32: f32_bits(0.5), F64: f64_bits(-1.25)}[i.desc[0]]
        else:
            d["min"], d["max"] = i.desc
        out.append(d)
    return out


def exported_funcs(m):
    """[(export name, FT)] for exported functions."""
    return [(n, m.func_type(i)) for n, k, i in m.exports if k == "func"]


def exported_globals(m):
    return [(n, m.global_type(i)[0]) for n, k, i in m.exports if k == "global"]


def exported_memory(m):
    for n, k, i in m.exports:
        if k == "memory":
            return n
    return None


def count(it):
    return sum(1 for _ in it)
