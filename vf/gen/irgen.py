"""IR module enumerators (DESIGN 3.1 "IR modules").

A module is described by a small JSON-able *description* and built by `build(desc)`:

desc = {"name": str, "globals": [[name, size, align, hexbytes|None]], "externals": [[name, [argtys], retty|None]],
        "functions": [fdesc]}
fdesc = {"name": str, "ret": ty|None, "params": [ty], "blocks": [[instr, ...], ...]}     # block 0 is the entry
instr (values are numbered %0, %1, ... in creation order per function; parameters are p0, p1 ...; globals @name):
  ["const", ty, v]  ["bin", op, a, b, ty]  ["un", op, a, ty]  ["cast", ty, a]  ["alloc", size, align]  ["addr", a]
  ["load", ty, addr, volatile?]  ["store", v, addr, volatile?]  ["memcpy", dst, src, n]  ["call", callee, [args], ty|None]
  ["phi", ty, [[block_index, value], ...]]  ["undef", ty]  ["lit", hexbytes]
  ["jmp", k]  ["cjmp", a, cond, b, k_yes, k_no]  ["ret", a]  ["exit"]
Only instructions producing a Value get a number (store/memcpy/proc call/terminators do not).
"""
import itertools

INT_TYPES = ["i8", "u8", "i16", "u16", "i32", "u32", "i64", "u64"]
FLOAT_TYPES = ["f32", "f64"]
BINOPS = ["+", "-", "*", "/", "%", "|", "&", "^", "<<", ">>"]
CONDS = ["==", "!=", "<", ">", "<=", ">="]


def ty_of(name):
    from ppci import ir
    if name == "ptr":
        return ir.ptr
    return ir.get_ty(name)


def build(desc):
    from ppci import ir
    m = ir.Module(desc.get("name", "m"))
    g = {}
    for e in desc.get("externals", []):
        name, argtys, ret = e
        if ret is None:
            x = ir.ExternalProcedure(name, [ty_of(t) for t in argtys])
        else:
            x = ir.ExternalFunction(name, [ty_of(t) for t in argtys], ty_of(ret))
        m.add_external(x)
        g[name] = x
    for gd in desc.get("globals", []):
        name, size, align, init = (list(gd) + [None])[:4]
        value = bytes.fromhex(init) if init is not None else None
        v = ir.Variable(name, ir.Binding.GLOBAL, size, align, value=value)
        m.add_variable(v)
        g[name] = v
    funcs = []
    for fd in desc["functions"]:
        if fd.get("ret") is None:
            f = ir.Procedure(fd["name"], ir.Binding.GLOBAL)
        else:
            f = ir.Function(fd["name"], ir.Binding.GLOBAL, ty_of(fd["ret"]))
        m.add_function(f)
        g[fd["name"]] = f
        funcs.append((fd, f))
    for fd, f in funcs:
        params = []
        for i, t in enumerate(fd["params"]):
            p = ir.Parameter("p%d" % i, ty_of(t))
            f.add_parameter(p)
            params.append(p)
        blocks = []
        for i in range(len(fd["blocks"])):
            b = ir.Block("b%d" % i)
            f.add_block(b)
            blocks.append(b)
        f.entry = blocks[0]
        vals = []
        phis = []

        def ref(r):
            if isinstance(r, str):
                if r[0] == "p":
                    return params[int(r[1:])]
                if r[0] == "%":
                    return vals[int(r[1:])]
                if r[0] == "@":
                    return g[r[1:]]
            raise ValueError(r)

        # first pass: count value-producing instructions so forward refs (phis) can be patched
        for bi, body in enumerate(fd["blocks"]):
            b = blocks[bi]
            for ins in body:
                k = ins[0]
                name = "v%d" % len(vals)
                n = None
                if k == "const":
                    n = ir.Const(ins[2], name, ty_of(ins[1]))
                elif k == "bin":
                    n = ir.Binop(ref(ins[2]), ins[1], ref(ins[3]), name, ty_of(ins[4]))
                elif k == "un":
                    n = ir.Unop(ins[1], ref(ins[2]), name, ty_of(ins[3]))
                elif k == "cast":
                    n = ir.Cast(ref(ins[2]), name, ty_of(ins[1]))
                elif k == "alloc":
                    n = ir.Alloc(name, ins[1], ins[2])
                elif k == "addr":
                    n = ir.AddressOf(ref(ins[1]), name)
                elif k == "load":
                    n = ir.Load(ref(ins[2]), name, ty_of(ins[1]), volatile=bool(ins[3]) if len(ins) > 3 else False)
                elif k == "store":
                    b.add_instruction(ir.Store(ref(ins[1]), ref(ins[2]), volatile=bool(ins[3]) if len(ins) > 3 else False))
                elif k == "memcpy":
                    b.add_instruction(ir.CopyBlob(ref(ins[1]), ref(ins[2]), ins[3]))
                elif k == "call":
                    callee = ref(ins[1])
                    args = [ref(a) for a in ins[2]]
                    if ins[3] is None:
                        b.add_instruction(ir.ProcedureCall(callee, args))
                    else:
                        n = ir.FunctionCall(callee, args, name, ty_of(ins[3]))
                elif k == "phi":
                    n = ir.Phi(name, ty_of(ins[1]))
                    phis.append((n, ins[2]))
                elif k == "undef":
                    n = ir.Undefined(name, ty_of(ins[1]))
                elif k == "lit":
                    n = ir.LiteralData(bytes.fromhex(ins[1]), name)
                elif k == "jmp":
                    b.add_instruction(ir.Jump(blocks[ins[1]]))
                elif k == "cjmp":
                    b.add_instruction(ir.CJump(ref(ins[1]), ins[2], ref(ins[3]), blocks[ins[4]], blocks[ins[5]]))
                elif k == "ret":
                    b.add_instruction(ir.Return(ref(ins[1])))
                elif k == "exit":
                    b.add_instruction(ir.Exit())
                else:
                    raise ValueError(k)
                if n is not None:
                    b.add_instruction(n)
                    vals.append(n)
        for n, inputs in phis:
            for bi, v in inputs:
                n.set_incoming(blocks[bi], ref(v))
    return m


# --------------------------------------------------------------------------- value alphabets

def V(ty, k=7):
    """Boundary value alphabets V3 / V7 / V13 for an integer type name; float alphabet for f32/f64."""
    if ty in FLOAT_TYPES:
        base = [0.0, 1.0, -1.0, 0.5, -1.5, 2.5, -0.0]
        if k > 7:
            base += [2.0 ** 31, -(2.0 ** 31) - 1, 2.0 ** 63, 1e-40 if ty == "f64" else 1.5e-40, float("inf"), float("-inf"), float("nan"), 16777217.0, 0.1]
        return base
    bits = int(ty[1:])
    signed = ty[0] == "i"
    lo, hi = (-(1 << (bits - 1)), (1 << (bits - 1)) - 1) if signed else (0, (1 << bits) - 1)
    v3 = [0, 1, -1 if signed else hi]
    if k <= 3:
        return v3
    v7 = v3 + [lo if signed else hi - 1, hi if signed else 2, 2 if signed else 3, hi - 1 if signed else (hi >> 1)]
    if k <= 7:
        return _dedup(v7)
    half = bits // 2
    more = [(1 << half) - 1, (1 << half), (1 << half) + 1, int("55" * (bits // 8), 16), int("AA" * (bits // 8), 16), bits - 1, bits, 7, lo + 1, -7 if signed else 100, -2 if signed else hi - 2, 3]
    out = []
    for x in v7 + more:
        if x > hi:
            x -= 1 << bits
        if x < lo:
            x += 1 << bits
        if lo <= x <= hi:
            out.append(x)
    return _dedup(out)


def _dedup(xs):
    out = []
    for x in xs:
        if not any(x == y and type(x) is type(y) and (str(x) == str(y)) for y in out):
            out.append(x)
    return out


# --------------------------------------------------------------------------- L1: straight-line value programs

def l1_binop(ty, op, mode="pp"):
    """f(p0: ty, p1: ty) -> ty = p0 op p1 ; mode 'pp' params, 'aa' same operand twice."""
    a, b = ("p0", "p1") if mode == "pp" else ("p0", "p0")
    return {"name": "l1", "functions": [{"name": "f", "ret": ty, "params": [ty, ty],
            "blocks": [[["bin", op, a, b, ty], ["ret", "%0"]]]}]}


def l1_binop_const(ty, op, ca, cb):
    """Two constants and one binop: f() -> ty (what the constant folder sees)."""
    return {"name": "l1c", "functions": [{"name": "f", "ret": ty, "params": [ty, ty],
            "blocks": [[["const", ty, ca], ["const", ty, cb], ["bin", op, "%0", "%1", ty], ["ret", "%2"]]]}]}


def l1_programs(types, k):
    """All straight-line programs of exactly k value instructions over one type: instr i is const(c), unop, or binop over
    earlier values (params p0,p1 count as values); returns the last value.  Yields descriptions."""
    for ty in types:
        isf = ty in FLOAT_TYPES
        ops = ["+", "-", "*", "/"] if isf else BINOPS
        unops = ["-"] if isf else ["-", "~"]
        consts = [0.0, 1.5] if isf else [0, 1, 3]

        def choices(nvals):
            refs = ["p0", "p1"] + ["%%%d" % i for i in range(nvals)]
            for c in consts:
                yield ["const", ty, c]
            for u in unops:
                for a in refs:
                    yield ["un", u, a, ty]
            for op in ops:
                for a in refs:
                    for b in refs:
                        yield ["bin", op, a, b, ty]

        def rec(prefix):
            if len(prefix) == k:
                yield prefix
                return
            for c in choices(len(prefix)):
                yield from rec(prefix + [c])

        for body in rec([]):
            # the last value must be used; earlier unused values are fine (dead code for DCE)
            yield {"name": "l1", "functions": [{"name": "f", "ret": ty, "params": [ty, ty],
                   "blocks": [body + [["ret", "%%%d" % (k - 1)]]]}]}


def cast_program(src, dst):
    return {"name": "cast", "functions": [{"name": "f", "ret": dst, "params": [src], "blocks": [[["cast", dst, "p0"], ["ret", "%0"]]]}]}


# --------------------------------------------------------------------------- L2: memory programs

def l2_programs(nops, ty="i32"):
    """Straight-line memory programs over two stack slots x, y and one global g (4 bytes each) plus an external call that may
    read/write g: all sequences of `nops` operations from the menu; returns x + y + g at the end.
    Addresses: ax, ay are distinct allocas; az aliases ax (second AddressOf of the same alloca)."""
    size = 4 if ty in ("i32", "u32", "f32") else int(ty[1:]) // 8
    pre = [["alloc", size, size], ["addr", "%0"], ["alloc", size, size], ["addr", "%2"], ["addr", "%0"],
           ["const", ty, 1], ["store", "p0", "%1"], ["store", "p1", "%3"]]  # %1=ax %3=ay %4=az(alias ax) %5=1
    nv = 6
    menu = [
        ("st_x_p1", lambda n: [["store", "p1", "%1"]], 0),
        ("st_alias_c", lambda n: [["store", "%5", "%4"]], 0),
        ("ld_x_st_y", lambda n: [["load", ty, "%1"], ["store", "%%%d" % n, "%3"]], 1),
        ("ld_alias_st_g", lambda n: [["load", ty, "%4"], ["store", "%%%d" % n, "@g"]], 1),
        ("ld_g_st_x", lambda n: [["load", ty, "@g"], ["store", "%%%d" % n, "%1"]], 1),
        ("call", lambda n: [["call", "@ext", ["p0"], ty], ["store", "%%%d" % n, "%3"]], 1),
        ("memcpy_y_x", lambda n: [["memcpy", "%3", "%1", size]], 0),
        ("inc_x", lambda n: [["load", ty, "%1"], ["bin", "+", "%%%d" % n, "%5", ty], ["store", "%%%d" % (n + 1), "%1"]], 2),
        ("vol_ld_x", lambda n: [["load", ty, "%1", True], ["store", "%%%d" % n, "@g", True]], 1),
    ]
    for seq in itertools.product(range(len(menu)), repeat=nops):
        body = list(pre)
        n = nv
        for mi in seq:
            name, fn, adds = menu[mi]
            body += fn(n)
            n += adds
        body += [["load", ty, "%1"], ["load", ty, "%3"], ["load", ty, "@g"], ["bin", "+", "%%%d" % n, "%%%d" % (n + 1), ty],
                 ["bin", "+", "%%%d" % (n + 3), "%%%d" % (n + 2), ty], ["ret", "%%%d" % (n + 4)]]
        yield {"name": "l2_" + "_".join(menu[i][0] for i in seq), "globals": [["g", size, size, None]],
               "externals": [["ext", [ty], ty]],
               "functions": [{"name": "f", "ret": ty, "params": [ty, ty], "blocks": [body]}]}


# --------------------------------------------------------------------------- L3: CFG programs over memory variables

def cfg_skeletons(n):
    """Every assignment of a terminator kind to each of n blocks: ('ret',) | ('jmp', t) | ('cjmp', t1, t2) with t1 != t2,
    such that all blocks are reachable from block 0 and some 'ret' is reachable.  Simplest first (fewest edges)."""
    kinds = [("ret",)] + [("jmp", t) for t in range(n)] + [("cjmp", a, b) for a in range(n) for b in range(n) if a != b]
    out = []
    for combo in itertools.product(kinds, repeat=n):
        seen, todo = {0}, [0]
        while todo:
            b = todo.pop()
            for t in combo[b][1:]:
                if t not in seen:
                    seen.add(t)
                    todo.append(t)
        if len(seen) != n:
            continue
        if not any(c[0] == "ret" for c in combo):
            continue
        out.append(combo)
    out.sort(key=lambda c: (sum(len(x) - 1 for x in c), c))
    return out


L3_BODIES = [
    [],                                            # empty body (empty blocks matter to CleanPass)
    [("x", "+", "x", "one")],                      # x = x + 1
    [("y", "+", "y", "x")],                        # y = y + x
    [("x", "*", "a", "y"), ("y", "-", "y", "one")],  # x = a*y ; y = y-1
    [("g", "+", "g", "x")],                        # g = g + x   (global: observable memory)
    [("x", "call", "y", None)],                    # x = ext(y)
    [("x", "copy", "b", None)],                    # x = b  (a pure copy: the block is EMPTY after mem2reg, its value lives in a phi)
]
L3_CONDS = [("x", "<", "three"), ("y", "!=", "a"), ("a", "<", "b"), ("g", "==", "one")]


def l3_program(skel, bodies, conds, ty="i32"):
    """CFG program: entry prologue allocates x,y (initialised from p0,p1), each block k runs L3_BODIES[bodies[k]] on the
    memory variables and ends with skel[k]; a 'ret' returns x*3+y+g."""
    n = len(skel)
    blocks = []
    # prologue block (block 0 of the IR function) jumps to skeleton block 0 (IR block 1) so that block 0 may have predecessors
    pro = [["alloc", 4, 4], ["addr", "%0"], ["alloc", 4, 4], ["addr", "%2"], ["const", ty, 1], ["const", ty, 3],
           ["store", "p0", "%1"], ["store", "p1", "%3"], ["jmp", 1]]
    blocks.append(pro)
    nv = 6
    AX, AY, ONE, THREE = "%1", "%3", "%4", "%5"

    def load(var, body):
        nonlocal nv
        if var == "a":
            return "p0"
        if var == "b":
            return "p1"
        if var == "one":
            return ONE
        if var == "three":
            return THREE
        addr = {"x": AX, "y": AY, "g": "@g"}[var]
        body.append(["load", ty, addr])
        nv += 1
        return "%%%d" % (nv - 1)

    for k in range(n):
        body = []
        for (dst, op, s1, s2) in L3_BODIES[bodies[k]]:
            a = load(s1, body)
            if op == "copy":
                body.append(["store", a, {"x": AX, "y": AY, "g": "@g"}[dst]])
                continue
            if op == "call":
                body.append(["call", "@ext", [a], ty])
            else:
                b = load(s2, body)
                body.append(["bin", op, a, b, ty])
            nv += 1
            body.append(["store", "%%%d" % (nv - 1), {"x": AX, "y": AY, "g": "@g"}[dst]])
        t = skel[k]
        if t[0] == "ret":
            x = load("x", body)
            y = load("y", body)
            g = load("g", body)
            body.append(["bin", "*", x, THREE, ty])
            body.append(["bin", "+", "%%%d" % nv, y, ty])
            body.append(["bin", "+", "%%%d" % (nv + 1), g, ty])
            nv += 3
            body.append(["ret", "%%%d" % (nv - 1)])
        elif t[0] == "jmp":
            body.append(["jmp", t[1] + 1])
        else:
            c = L3_CONDS[conds[k] % len(L3_CONDS)]
            a = load(c[0], body)
            b = load(c[2], body)
            body.append(["cjmp", a, c[1], b, t[1] + 1, t[2] + 1])
        blocks.append(body)
    return {"name": "l3", "globals": [["g", 4, 4, None]], "externals": [["ext", [ty], ty]],
            "functions": [{"name": "f", "ret": ty, "params": [ty, ty], "blocks": blocks}]}


def l3_programs(nblocks, variants=4, ty="i32"):
    """For every skeleton with `nblocks` blocks: `variants` rotations of the body/condition menus (a Latin assignment, so every
    body occurs in every block position across variants)."""
    for skel in cfg_skeletons(nblocks):
        for v in range(variants):
            bodies = [(k + v) % len(L3_BODIES) + 0 for k in range(nblocks)]
            if v % 2:
                bodies = [(2 * k + v) % len(L3_BODIES) for k in range(nblocks)]
            conds = [(k + v) % len(L3_CONDS) for k in range(nblocks)]
            yield l3_program(skel, bodies, conds, ty)


# --------------------------------------------------------------------------- L4: hand-shaped SSA/phi patterns

def l4_programs(ty="i32"):
    one = ["const", ty, 1]
    progs = []
    # swap loop: (x, y) = (y, x) n times  -- phis that read each other (parallel copy semantics)
    progs.append({"name": "l4_swap", "functions": [{"name": "f", "ret": ty, "params": [ty, ty], "blocks": [
        [["const", ty, 0], one, ["const", ty, 3], ["jmp", 1]],
        [["phi", ty, [[0, "p0"], [2, "%4"]]], ["phi", ty, [[0, "p1"], [2, "%3"]]], ["phi", ty, [[0, "%0"], [2, "%6"]]],
         ["cjmp", "%5", "<", "%2", 2, 3]],
        [["bin", "+", "%5", "%1", ty], ["jmp", 1]],
        [["bin", "-", "%3", "%4", ty], ["ret", "%7"]]]}]})
    # self-loop phi: block that jumps to itself
    progs.append({"name": "l4_selfloop", "functions": [{"name": "f", "ret": ty, "params": [ty, ty], "blocks": [
        [["const", ty, 0], one, ["const", ty, 4], ["jmp", 1]],
        [["phi", ty, [[0, "%0"], [1, "%5"]]], ["phi", ty, [[0, "p0"], [1, "%6"]]], ["bin", "+", "%3", "%1", ty],
         ["bin", "+", "%4", "%3", ty], ["cjmp", "%5", "<", "%2", 1, 2]],
        [["bin", "+", "%6", "p1", ty], ["ret", "%7"]]]}]})
    # diamond with empty arms and phi (CleanPass.remove_empty_blocks / glue_blocks)
    for cond in ("<", "=="):
        progs.append({"name": "l4_diamond_empty_" + cond, "functions": [{"name": "f", "ret": ty, "params": [ty, ty], "blocks": [
            [one, ["cjmp", "p0", cond, "p1", 1, 2]],
            [["jmp", 3]],
            [["jmp", 3]],
            [["phi", ty, [[1, "p0"], [2, "p1"]]], ["bin", "+", "%1", "%0", ty], ["ret", "%2"]]]}]})
    # diamond where one arm is the fall-through edge itself (critical edge) and shared successor
    progs.append({"name": "l4_triangle", "functions": [{"name": "f", "ret": ty, "params": [ty, ty], "blocks": [
        [one, ["cjmp", "p0", "<", "p1", 1, 2]],
        [["bin", "+", "p0", "%0", ty], ["jmp", 2]],
        [["phi", ty, [[0, "p1"], [1, "%1"]]], ["ret", "%2"]]]}]})
    # phi with the same value from both sides, and phi feeding phi
    progs.append({"name": "l4_phi_same", "functions": [{"name": "f", "ret": ty, "params": [ty, ty], "blocks": [
        [one, ["cjmp", "p0", ">", "p1", 1, 2]],
        [["bin", "*", "p0", "p0", ty], ["jmp", 3]],
        [["bin", "*", "p1", "p1", ty], ["jmp", 3]],
        [["phi", ty, [[1, "%0"], [2, "%0"]]], ["phi", ty, [[1, "%1"], [2, "%2"]]], ["bin", "+", "%3", "%4", ty], ["ret", "%5"]]]}]})
    # single-input phis in a block whose only predecessor ends in a plain jump (CleanPass.glue_blocks must resolve them)
    progs.append({"name": "l4_single_phi", "functions": [{"name": "f", "ret": ty, "params": [ty, ty], "blocks": [
        [one, ["bin", "+", "p0", "%0", ty], ["jmp", 1]],
        [["phi", ty, [[0, "%1"]]], ["phi", ty, [[0, "p1"]]], ["bin", "*", "%2", "%3", ty], ["ret", "%4"]]]}]})
    progs.append({"name": "l4_single_phi_after_diamond", "functions": [{"name": "f", "ret": ty, "params": [ty, ty], "blocks": [
        [one, ["cjmp", "p0", "<", "p1", 1, 2]],
        [["jmp", 3]],
        [["jmp", 3]],
        [["phi", ty, [[1, "p0"], [2, "p1"]]], ["jmp", 4]],
        [["phi", ty, [[3, "%1"]]], ["bin", "+", "%2", "%0", ty], ["ret", "%3"]]]}]})
    # tail recursion: f(a, b) = a <= 0 ? b : f(a-1, b+a)
    progs.append({"name": "l4_tailrec", "functions": [{"name": "f", "ret": ty, "params": [ty, ty], "blocks": [
        [["const", ty, 0], one, ["cjmp", "p0", "<=", "%0", 1, 2]],
        [["ret", "p1"]],
        [["bin", "-", "p0", "%1", ty], ["bin", "+", "p1", "p0", ty], ["call", "@f", ["%2", "%3"], ty], ["ret", "%4"]]]}]})
    # tail recursion whose arguments are swapped parameters: f(a, b) = a <= 0 ? b : f(b - 1, a)  (parallel assignment needed)
    progs.append({"name": "l4_tailrec_swap", "functions": [{"name": "f", "ret": ty, "params": [ty, ty], "blocks": [
        [["const", ty, 0], one, ["cjmp", "p0", "<=", "%0", 1, 2]],
        [["ret", "p1"]],
        [["bin", "-", "p1", "%1", ty], ["call", "@f", ["%2", "p0"], ty], ["ret", "%3"]]]}]})
    # self calls that are NOT tail calls, and tail calls that forward a parameter unchanged
    #   f(a, b) = a <= 0 ? b : (f(a-1, b+a), b+a)      -- the value returned is not the call's result
    progs.append({"name": "l4_selfcall_returns_other_value", "functions": [{"name": "f", "ret": ty, "params": [ty, ty], "blocks": [
        [["const", ty, 0], one, ["cjmp", "p0", "<=", "%0", 1, 2]],
        [["ret", "p1"]],
        [["bin", "-", "p0", "%1", ty], ["bin", "+", "p1", "p0", ty], ["call", "@f", ["%2", "%3"], ty], ["ret", "%3"]]]}]})
    #   f(a, b) = a <= 0 ? b : f(a-1, b) + 1            -- something happens between the call and the return
    progs.append({"name": "l4_selfcall_then_add", "functions": [{"name": "f", "ret": ty, "params": [ty, ty], "blocks": [
        [["const", ty, 0], one, ["cjmp", "p0", "<=", "%0", 1, 2]],
        [["ret", "p1"]],
        [["bin", "-", "p0", "%1", ty], ["call", "@f", ["%2", "p1"], ty], ["bin", "+", "%3", "%1", ty], ["ret", "%4"]]]}]})
    #   f(a, b) = a <= 0 ? b : f(a-1, b)                -- parameter b is passed on as it is
    progs.append({"name": "l4_tailrec_forwards_parameter", "functions": [{"name": "f", "ret": ty, "params": [ty, ty], "blocks": [
        [["const", ty, 0], one, ["cjmp", "p0", "<=", "%0", 1, 2]],
        [["ret", "p1"]],
        [["bin", "-", "p0", "%1", ty], ["call", "@f", ["%2", "p1"], ty], ["ret", "%3"]]]}]})
    # a stack slot allocated inside a loop body (not in the entry block), stored on one arm of a diamond only and loaded at the join
    # (the load reads an undefined value on the other arm: behaviour is not compared then, but every pass must keep the module well formed)
    progs.append({"name": "l4_alloc_in_loop_body", "functions": [{"name": "f", "ret": ty, "params": [ty, ty], "blocks": [
        [["const", ty, 0], one, ["jmp", 1]],
        [["phi", ty, [[0, "%0"], [4, "%8"]]], ["phi", ty, [[0, "%0"], [4, "%7"]]], ["cjmp", "%2", "<", "p0", 2, 5]],
        [["alloc", 8, 8], ["addr", "%4"], ["cjmp", "%2", "<", "p1", 3, 4]],
        [["store", "%2", "%5"], ["jmp", 4]],
        [["load", ty, "%5"], ["bin", "+", "%3", "%6", ty], ["bin", "+", "%2", "%1", ty], ["jmp", 1]],
        [["ret", "%3"]]]}]})
    # the same with the slot initialised in the block that allocates it (fully defined behaviour)
    progs.append({"name": "l4_alloc_in_loop_body_initialised", "functions": [{"name": "f", "ret": ty, "params": [ty, ty], "blocks": [
        [["const", ty, 0], one, ["jmp", 1]],
        [["phi", ty, [[0, "%0"], [4, "%8"]]], ["phi", ty, [[0, "%0"], [4, "%7"]]], ["cjmp", "%2", "<", "p0", 2, 5]],
        [["alloc", 8, 8], ["addr", "%4"], ["store", "%1", "%5"], ["cjmp", "%2", "<", "p1", 3, 4]],
        [["store", "%2", "%5"], ["jmp", 4]],
        [["load", ty, "%5"], ["bin", "+", "%3", "%6", ty], ["bin", "+", "%2", "%1", ty], ["jmp", 1]],
        [["ret", "%3"]]]}]})
    #   f(a, b) = a <= 0 ? b : f(a-1, a-1)              -- the same new value for both parameters
    progs.append({"name": "l4_tailrec_same_value_twice", "functions": [{"name": "f", "ret": ty, "params": [ty, ty], "blocks": [
        [["const", ty, 0], one, ["cjmp", "p0", "<=", "%0", 1, 2]],
        [["ret", "p1"]],
        [["bin", "-", "p0", "%1", ty], ["call", "@f", ["%2", "%2"], ty], ["ret", "%3"]]]}]})
    return progs


# --------------------------------------------------------------------------- L5: one program per shortcut visible in the passes

def l5_programs():
    """Targeted tiny programs: a value that a pass replaces (x+0, x*1, folded constant, forwarded load, CSE duplicate) is used
    twice by one consumer; float identities that are not identities (-0.0 + 0.0, reassociation); casts of float constants."""
    P = []

    def fn(name, ty, body, params=None, ext=None, glob=False):
        d = {"name": "l5_" + name, "functions": [{"name": "f", "ret": ty, "params": params or [ty, ty], "blocks": body if isinstance(body[0][0], list) else [body]}]}
        if ext:
            d["externals"] = ext
        if glob:
            d["globals"] = [["g", 8, 8, None]]
        P.append(d)

    for ty, zero, one in (("i32", 0, 1), ("u8", 0, 1), ("f64", 0.0, 1.0)):
        fn("addzero_twice_" + ty, ty, [["const", ty, zero], ["bin", "+", "p0", "%0", ty], ["bin", "*", "%1", "%1", ty], ["ret", "%2"]])
        fn("zeroadd_twice_" + ty, ty, [["const", ty, zero], ["bin", "+", "%0", "p0", ty], ["bin", "-", "%1", "%1", ty], ["ret", "%2"]])
        fn("mulone_twice_" + ty, ty, [["const", ty, one], ["bin", "*", "p0", "%0", ty], ["bin", "+", "%1", "%1", ty], ["ret", "%2"]])
        fn("addzero_" + ty, ty, [["const", ty, zero], ["bin", "+", "p0", "%0", ty], ["ret", "%1"]])
        fn("zeroadd_" + ty, ty, [["const", ty, zero], ["bin", "+", "%0", "p0", ty], ["ret", "%1"]])
        fn("addzero_call2_" + ty, ty, [["const", ty, zero], ["bin", "+", "p0", "%0", ty], ["call", "@ext2", ["%1", "%1"], ty], ["ret", "%2"]],
           ext=[["ext2", [ty, ty], ty]])
        fn("addzero_cjmp_" + ty, ty, [[["const", ty, zero], ["bin", "+", "p0", "%0", ty], ["cjmp", "%1", "==", "%1", 1, 2]], [["ret", "p0"]], [["ret", "p1"]]])
        fn("addzero_phi_" + ty, ty, [[["const", ty, zero], ["bin", "+", "p0", "%0", ty], ["cjmp", "p0", "<", "p1", 1, 2]], [["jmp", 3]], [["jmp", 3]],
                                     [["phi", ty, [[1, "%1"], [2, "%1"]]], ["ret", "%2"]]])
        fn("fwd_load_twice_" + ty, ty, [["alloc", 8, 8], ["addr", "%0"], ["store", "p0", "%1"], ["load", ty, "%1"], ["bin", "*", "%2", "%2", ty], ["ret", "%3"]])
        fn("cse_twice_" + ty, ty, [["bin", "*", "p0", "p1", ty], ["bin", "*", "p0", "p1", ty], ["bin", "-", "%1", "%1", ty], ["bin", "+", "%2", "%0", ty], ["ret", "%3"]])
        fn("chain_add_" + ty, ty, [["const", ty, one], ["const", ty, one], ["bin", "+", "p0", "%0", ty], ["bin", "+", "%2", "%1", ty], ["bin", "*", "%3", "%3", ty], ["ret", "%4"]])
    # float reassociation: (y + 2^53) + (-2^53)  !=  y + 0  for y = 1.0
    big = 9007199254740992.0
    fn("chain_float_add", "f64", [["const", "f64", big], ["const", "f64", -big], ["bin", "+", "p0", "%0", "f64"], ["bin", "+", "%2", "%1", "f64"], ["ret", "%3"]])
    fn("chain_float_sub", "f64", [["const", "f64", big], ["const", "f64", -big], ["bin", "-", "p0", "%0", "f64"], ["bin", "-", "%2", "%1", "f64"], ["ret", "%3"]])
    # constants +0.0 and -0.0 are different values (CSE / folding must not merge them)
    fn("zero_signs", "f64", [["const", "f64", 0.0], ["const", "f64", -0.0], ["bin", "/", "p0", "%0", "f64"], ["bin", "/", "p0", "%1", "f64"], ["bin", "-", "%2", "%3", "f64"], ["ret", "%4"]])
    fn("int_consts_cse", "i32", [["const", "i32", 7], ["const", "i32", 7], ["bin", "+", "%0", "p0", "i32"], ["bin", "+", "%1", "p0", "i32"], ["bin", "*", "%2", "%3", "i32"], ["ret", "%4"]])
    # casts of constants
    for v in (2.7, -2.7, 0.5, -0.5, 1e9):
        P.append({"name": "l5_cast_f2i", "functions": [{"name": "f", "ret": "i32", "params": ["i32", "i32"], "blocks": [[["const", "f64", v], ["cast", "i32", "%0"], ["bin", "+", "%1", "p0", "i32"], ["ret", "%2"]]]}]})
    for v in (16777217, -3, 2 ** 31 - 1):
        P.append({"name": "l5_cast_i2f", "functions": [{"name": "f", "ret": "f32", "params": ["f32", "f32"], "blocks": [[["const", "i32", v], ["cast", "f32", "%0"], ["bin", "+", "%1", "p0", "f32"], ["ret", "%2"]]]}]})
    P.append({"name": "l5_cast_f64_f32", "functions": [{"name": "f", "ret": "f32", "params": ["f32", "f32"], "blocks": [[["const", "f64", 0.1], ["cast", "f32", "%0"], ["bin", "*", "%1", "p0", "f32"], ["ret", "%2"]]]}]})
    # CSE across a redefinition of memory / across a call
    fn("cse_loads_store_between", "i32", [["alloc", 4, 4], ["addr", "%0"], ["store", "p0", "%1"], ["load", "i32", "%1"], ["store", "p1", "%1"], ["load", "i32", "%1"],
                                          ["bin", "-", "%2", "%3", "i32"], ["ret", "%4"]])
    fn("cse_calls", "i32", [["call", "@ext", ["p0"], "i32"], ["call", "@ext", ["p0"], "i32"], ["bin", "+", "%0", "%1", "i32"], ["ret", "%2"]], ext=[["ext", ["i32"], "i32"]])
    fn("volatile_loads", "i32", [["load", "i32", "@g", True], ["load", "i32", "@g", True], ["bin", "+", "%0", "%1", "i32"], ["ret", "%2"]], glob=True)
    fn("store_store_load", "i32", [["store", "p0", "@g"], ["store", "p1", "@g"], ["load", "i32", "@g"], ["ret", "%0"]], glob=True)
    fn("store_load_other_type", "i32", [["const", "u8", 7], ["store", "p0", "@g"], ["store", "%0", "@g"], ["load", "i32", "@g"], ["ret", "%1"]], glob=True)
    fn("unused_call", "i32", [["call", "@ext", ["p0"], "i32"], ["ret", "p1"]], ext=[["ext", ["i32"], "i32"]])
    fn("unused_div", "i32", [["bin", "/", "p0", "p1", "i32"], ["ret", "p1"]])
    fn("shift_const_oob", "i32", [["const", "i32", 40], ["const", "i32", 1], ["bin", "<<", "%1", "%0", "i32"], ["ret", "p0"]])
    fn("mod_const_zero", "i32", [["const", "i32", 0], ["const", "i32", 5], ["bin", "%", "%1", "%0", "i32"], ["ret", "p0"]])
    # conditional jumps between two constants (CJumpPass): every condition, signed / unsigned / float constants, a successor with a phi
    # that keeps an incoming value from the branching block, and both targets equal
    for ty, a, b in (("i32", -1, 1), ("i32", 3, 3), ("u8", 200, 100), ("u32", 4000000000, 5), ("i64", -(2 ** 40), 2 ** 40), ("f64", -0.0, 0.0), ("f64", 1.5, 1.25)):
        for cond in ("==", "!=", "<", "<=", ">", ">="):
            fn("cjmp_consts_%s_%s" % (ty, cond), "i32", [[["const", ty, a], ["const", ty, b], ["cjmp", "%0", cond, "%1", 1, 2]], [["ret", "p0"]], [["ret", "p1"]]], params=["i32", "i32"])
    for cond in ("<", ">="):
        fn("cjmp_consts_phi_" + cond, "i32", [[["const", "i32", 2], ["const", "i32", 7], ["cjmp", "%0", cond, "%1", 1, 2]], [["jmp", 2]],
                                              [["phi", "i32", [[0, "p0"], [1, "p1"]]], ["bin", "+", "%2", "%2", "i32"], ["ret", "%3"]]], params=["i32", "i32"])
        fn("cjmp_consts_loop_" + cond, "i32", [[["const", "i32", 2], ["const", "i32", 7], ["jmp", 1]],
                                               [["phi", "i32", [[0, "p0"], [1, "%3"]]], ["bin", "+", "%2", "%0", "i32"], ["cjmp", "%0", cond, "%1", 2, 1]],
                                               [["ret", "%3"]]], params=["i32", "i32"])
    fn("cjmp_consts_same_target", "i32", [[["const", "i32", 1], ["const", "i32", 2], ["cjmp", "%0", "<", "%1", 1, 1]], [["ret", "p0"]]], params=["i32", "i32"])
    fn("cjmp_folded_consts", "i32", [[["const", "i32", 1], ["const", "i32", 2], ["bin", "+", "%0", "%1", "i32"], ["cjmp", "%2", "==", "%1", 1, 2]], [["ret", "p0"]], [["ret", "p1"]]],
       params=["i32", "i32"])
    return P
