"""K4 - generic dataflow fixpoint over an instruction-level CFG with a pluggable lattice, plus witness-path search.

A *graph* is given as `succ`: list (indexed by node number) of lists of successor node numbers.  A *problem* is any
object with

    problem.transfer(node, state) -> state      the effect of executing `node` on the state that holds before it
    problem.meet(a, b)            -> state      combination of the states arriving over two edges

States are immutable values compared with `==`.  `None` is the neutral element of `meet` ("no path reaches this point
yet") and is never handed to `transfer`.  Nothing else is assumed, so the same solver runs

  * must-analyses   (meet = intersection, e.g. "which value does every location hold"),
  * may-analyses    (meet = union, e.g. reaching definitions),
  * backward analyses: call it on `reverse(succ)` with every node seeded (e.g. liveness).

When every transfer function is distributive over `meet` (gen / kill / copy functions are) the fixpoint computed
here equals the meet over all paths, so a fact that fails at a node fails on at least one concrete path and
`witness_path` finds a shortest such path by breadth-first search over (node, path state) pairs without ever joining.
"""
from collections import deque


class Stats:
    __slots__ = ("transfers", "states", "updates")

    def __init__(self):
        self.transfers = 0   # transfer-function applications
        self.states = 0      # program points that received an abstract state (reachable nodes)
        self.updates = 0     # number of times the state of a program point was lowered


def reverse(succ):
    pred = [[] for _ in succ]
    for i, ss in enumerate(succ):
        for s in ss:
            pred[s].append(i)
    return pred


def rpo(succ, roots):
    """Reverse post-order numbering of the nodes reachable from `roots` (iterative DFS)."""
    seen = set()
    order = []
    for r in roots:
        if r in seen:
            continue
        seen.add(r)
        stack = [(r, iter(succ[r]))]
        while stack:
            n, it = stack[-1]
            for s in it:
                if s not in seen:
                    seen.add(s)
                    stack.append((s, iter(succ[s])))
                    break
            else:
                order.append(n)
                stack.pop()
    order.reverse()
    return order


def fixpoint(succ, entries, problem, stats=None):
    """Solve  IN[n] = meet(entries.get(n), meet over predecessors p of OUT[p]),  OUT[n] = transfer(n, IN[n]).

    entries: dict node -> state holding on entry at that node (the boundary condition).
    Returns (IN, OUT): lists indexed by node; None where no path from an entry node arrives."""
    n = len(succ)
    if stats is None:
        stats = Stats()
    IN = [None] * n
    OUT = [None] * n
    order = rpo(succ, sorted(entries))
    meet = problem.meet
    transfer = problem.transfer
    for node, st in entries.items():
        IN[node] = st if IN[node] is None else meet(IN[node], st)
    # worklist ordered by reverse post-order: a simple bucket of pending flags scanned round-robin
    pending = [False] * n
    for node in entries:
        pending[node] = True
    npending = len(entries)
    while npending:
        for node in order:
            if not pending[node]:
                continue
            pending[node] = False
            npending -= 1
            out = transfer(node, IN[node])
            stats.transfers += 1
            if out == OUT[node]:
                continue
            OUT[node] = out
            for s in succ[node]:
                cur = IN[s]
                new = out if cur is None else meet(cur, out)
                if cur is None or new != cur:
                    IN[s] = new
                    stats.updates += 1
                    if not pending[s]:
                        pending[s] = True
                        npending += 1
    stats.states += sum(1 for x in IN if x is not None)
    return IN, OUT


def witness_path(succ, entries, problem, target, fails, limit=200000):
    """Shortest path  entry node -> ... -> target  such that `fails(state before target on that path)` holds.

    The path state is obtained by applying `problem.transfer` along the path only (no meet).  Returns the list of
    nodes (ending with target) or None when no such path exists within `limit` explored (node, state) pairs.
    `problem` may be a projection of the analysed problem onto the facts that matter for `fails` (that keeps the number
    of distinct path states small); it must then be exact for those facts."""
    seen = set()
    queue = deque()
    parent = {}
    for node in sorted(entries):
        key = (node, entries[node])
        if key not in seen:
            seen.add(key)
            parent[key] = None
            queue.append(key)
    explored = 0
    while queue:
        key = queue.popleft()
        node, st = key
        if node == target and fails(st):
            path = []
            k = key
            while k is not None:
                path.append(k[0])
                k = parent[k]
            path.reverse()
            return path
        explored += 1
        if explored > limit:
            return None
        out = problem.transfer(node, st)
        for s in succ[node]:
            k2 = (s, out)
            if k2 not in seen:
                seen.add(k2)
                parent[k2] = key
                queue.append(k2)
    return None
