"""K3 - stateless schedule explorer (controlled scheduler for real Python threads).

The program under test runs as *real* `threading.Thread`s, but only one of them runs at a
time: every managed thread owns a baton (a raw lock used as a binary semaphore) and waits
on it whenever it is not the scheduled thread.  All synchronisation of the program goes
through the cooperative `Lock`, `RLock`, `Event`, `Queue` and `Thread` classes below (the
harness rebinds them into the modules under test); each of their operations, and every
`Scheduler.point()` the harness adds (transport send, byte delivery), is a *scheduling
point*: the running thread announces the operation it is about to perform and the
scheduler picks the thread that runs next among the enabled ones.

* Thread start: every thread first runs alone, in id order, up to its first scheduling point (the code before
  it is thread-local) and is parked there; from then on its first operation competes with everything else, so
  "when does a thread start" is explored without paying for the permutations of no-op start events.  Threads
  started later by the program (`Thread.start()`) begin with an explicit, always enabled `start` operation.
* Real OS threads are pooled between executions (`_Worker`); a worker is handed back only after the managed
  function has completely unwound, otherwise the execution "cannot be torn down" (SchedError).
* Enabled order (canonical): running thread first, then ascending thread ids.  Choice 0 is
  therefore "keep running"; choosing another thread while the running one is enabled is a
  **preemption** (cost 1).  When the running thread is blocked or has exited every choice
  is free.
* A blocking `get/put/acquire/wait/join` is *disabled until ready*.  Virtual time advances
  only when no thread is enabled: then the timed wait with the earliest virtual deadline
  fires (ties are a choice point); firing costs `timeout_cost` deviations.  Real time never
  runs.  No enabled thread and no pending timeout ends the execution: `done` when every
  non-service thread has finished and every service thread sits at a declared idle point,
  `stuck` when a service thread is blocked elsewhere, `deadlock` otherwise.
* Exploration is stateless depth-first search over choice prefixes (`Explorer`), with
  iterative bounding of cost = preemptions + deviations: 0, 1, 2, ...  A replayed prefix
  must meet the same option sets (fingerprints); a divergence is a hard `SchedError`.
* `Explorer.confirm()` replays a schedule twice and demands the identical observation.

Used by vf/checks/c35.py; self-test in tests/test_sched.py.
"""
import sys
import queue as _queue
import _thread
import threading as _threading
from collections import deque

Empty = _queue.Empty
Full = _queue.Full

WALL_GUARD = 120.0  # wall-clock guard against a hung *harness*; only ever yields SchedError


class SchedAbort(BaseException):
    """Raised inside managed threads to unwind them when an execution is torn down."""


class SchedError(Exception):
    """Harness error: replay divergence, foreign thread, execution that cannot be torn down."""


K_ALWAYS, K_LOCK, K_GET, K_PUT, K_JOIN, K_EVENT, K_PRED = range(7)
KIND_NAMES = ("always", "lock", "get", "put", "join", "event", "pred")

_ACTIVE = None  # the scheduler new cooperative objects bind to


def active():
    return _ACTIVE


class _Worker:
    """A pooled real thread.  Starting an OS thread costs milliseconds on a loaded machine, so real threads
    are reused between executions; a worker returns to the pool only after the managed function has
    completely unwound (`fin` released), which is what `join` means for an execution."""

    def __init__(self):
        self.go = _thread.allocate_lock()
        self.go.acquire()
        self.fin = _thread.allocate_lock()
        self.fin.acquire()
        self.task = None
        self.thread = _threading.Thread(target=self._loop, name="vf-sched-worker", daemon=True)
        self.thread.start()
        self.ident = self.thread.ident

    def _loop(self):
        while True:
            self.go.acquire()
            task = self.task
            self.task = None
            if task is None:
                return
            try:
                task[0]._boot(task[1])
            finally:
                self.fin.release()


_POOL = []
_POOL_PID = None


def _get_worker():
    global _POOL, _POOL_PID
    import os
    if _POOL_PID != os.getpid():  # forked child: the parent's threads do not exist here
        _POOL = []
        _POOL_PID = os.getpid()
    if _POOL:
        return _POOL.pop()
    return _Worker()


def shutdown_pool():
    """Stop and join all pooled threads (idle by construction)."""
    global _POOL
    import os
    if _POOL_PID != os.getpid():
        _POOL = []
        return
    ws, _POOL = _POOL, []
    for w in ws:
        w.task = None
        w.go.release()
    for w in ws:
        w.thread.join(30.0)
        if w.thread.is_alive():
            raise SchedError("pooled scheduler thread did not stop")


class _Thr:
    __slots__ = ("id", "name", "fn", "service", "baton", "kind", "obj", "label", "deadline",
                 "real", "finished", "exc", "aborted", "timed_out", "started")

    def __init__(self, tid, name, fn, service):
        self.id = tid
        self.name = name
        self.fn = fn
        self.service = service
        self.baton = _thread.allocate_lock()
        self.baton.acquire()
        self.kind = K_ALWAYS
        self.obj = None
        self.label = "start"
        self.deadline = None
        self.real = None
        self.finished = False
        self.exc = None
        self.aborted = False
        self.timed_out = False
        self.started = False


class Scheduler:
    """One controlled execution."""

    def __init__(self, prefix=(), bound=None, timeout_cost=1, max_points=20000, trace_files=(), lenient=False):
        self.lenient = lenient        # replay of a schedule recorded on other code: clamp instead of diverging
        self.prefix = prefix          # [(index, fingerprint or None)]
        self.bound = bound            # None = unbounded (plain replay)
        self.timeout_cost = timeout_cost
        self.max_points = max_points
        self.trace_files = frozenset(trace_files)
        self.threads = []
        self.current = None
        self.running = False
        self.aborting = False
        self.end = None               # done | deadlock | stuck | pruned | horizon | error
        self.error = None
        self.trace = []               # [(index, n, costs, fingerprint, cost_before)]
        self.cost = 0
        self.preemptions = 0
        self.timeouts = 0
        self.npoints = 0
        self.nswitches = 0
        self.now = 0.0
        self.events = []              # harness log, totally ordered (one thread runs at a time)
        self.idle_objs = set()        # ids of queues on which a service thread may rest forever
        self.dynamic_service = False  # are threads started by the program service threads?
        self._done = _thread.allocate_lock()
        self._done.acquire()
        self._prologue = False

    # ------------------------------------------------------------------ program construction
    def spawn(self, name, fn, service=False):
        t = _Thr(len(self.threads), name, fn, service)
        self.threads.append(t)
        if self.running:
            self._start_real(t)
        return t

    def idle_on(self, q):
        self.idle_objs.add(id(q))

    def log(self, ev):
        self.events.append(ev)

    # ------------------------------------------------------------------ scheduling points
    def point(self, kind=K_ALWAYS, obj=None, label="point", timeout=None):
        """Announce the next operation of the running thread and let the scheduler decide.

        Returns True when the operation may proceed, False when its timeout fired."""
        if self.aborting:
            raise SchedAbort()
        cur = self.current
        if cur is None or cur.real.ident != _thread.get_ident():
            raise SchedError("scheduling point %r reached by a thread that is not the scheduled one" % (label,))
        self.npoints += 1
        if self.npoints > self.max_points:
            self._finish(cur, "horizon")
            raise SchedAbort()
        cur.kind = kind
        cur.obj = obj
        cur.label = label
        cur.deadline = None if timeout is None else self.now + timeout
        if self._prologue:
            # start-up: the thread has run its thread-local prefix and is parked at its first operation
            self.current = None
            self._done.release()
            cur.baton.acquire()
        else:
            self._decide(cur)
        if self.aborting:
            raise SchedAbort()
        if cur.timed_out:
            cur.timed_out = False
            return False
        return True

    def _ready(self, t):
        k = t.kind
        if k == K_ALWAYS:
            return True
        o = t.obj
        if k == K_GET:
            return len(o._items) > 0
        if k == K_PUT:
            return o.maxsize <= 0 or len(o._items) < o.maxsize
        if k == K_LOCK:
            return o._free_for(t)
        if k == K_JOIN:
            return o.finished
        if k == K_EVENT:
            return o._flag
        return bool(o())

    def _decide(self, cur):
        try:
            self._decide2(cur)
        except SchedAbort:
            raise
        except SchedError as e:
            self.error = e
            self._finish(cur, "error")

    def _decide2(self, cur):
        opts = []
        cur_ready = False
        if cur is not None and not cur.finished and self._ready(cur):
            opts.append(cur)
            cur_ready = True
        for t in self.threads:
            if t is not cur and not t.finished and self._ready(t):
                opts.append(t)
        fire = False
        if not opts:
            best = None
            for t in self.threads:
                if not t.finished and t.deadline is not None and (best is None or t.deadline < best):
                    best = t.deadline
            if best is None:
                return self._finish(cur, None)
            opts = [t for t in self.threads if not t.finished and t.deadline == best]
            fire = True
        n = len(opts)
        idx = 0
        tc = self.timeout_cost if fire else 0
        if n > 1 or tc:
            if fire:
                costs = (tc,) * n
            elif cur_ready:
                costs = (0,) + (1,) * (n - 1)
            else:
                costs = (0,) * n
            fp = (fire,) + tuple(t.id for t in opts)
            k = len(self.trace)
            if k < len(self.prefix):
                idx, pfp = self.prefix[k]
                if self.lenient:
                    idx = max(0, min(idx, n - 1))
                elif (pfp is not None and tuple(pfp) != fp) or not 0 <= idx < n:
                    raise SchedError("replay diverged at decision %d: recorded options %r index %d, now %r"
                                     % (k, pfp, idx, fp))
            c = costs[idx]
            if self.bound is not None and self.cost + c > self.bound:
                return self._finish(cur, "pruned")
            self.trace.append((idx, n, costs, fp, self.cost))
            self.cost += c
            if cur_ready and idx > 0:
                self.preemptions += 1
        nxt = opts[idx]
        if fire:
            self.now = nxt.deadline
            nxt.timed_out = True
            self.timeouts += 1
            self.events.append(("timeout", nxt.name, nxt.label))
        nxt.deadline = None
        self.current = nxt
        if nxt is cur:
            return
        self.nswitches += 1
        nxt.baton.release()
        if cur is not None and not cur.finished:
            cur.baton.acquire()

    def _finish(self, cur, reason):
        if reason is None:
            reason = "done"
            for t in self.threads:
                if t.finished:
                    continue
                if not t.service:
                    reason = "deadlock"
                    break
                if not (t.kind == K_GET and id(t.obj) in self.idle_objs) and t.started:
                    reason = "stuck"
        if self.end is None:
            self.end = reason
        self.current = None
        self._done.release()
        if cur is not None and not cur.finished and cur.real is not None and cur.real.ident == _thread.get_ident():
            cur.baton.acquire()

    # ------------------------------------------------------------------ threads
    def _start_real(self, t):
        w = _get_worker()
        t.real = w
        w.task = (self, t)
        w.go.release()

    def _boot(self, t):
        t.baton.acquire()
        if self.aborting:
            t.finished = True
            return
        t.started = True
        if self.trace_files:
            sys.settrace(self._tracer)
        try:
            t.fn()
        except SchedAbort:
            t.aborted = True
        except BaseException as e:  # noqa - the observation: a thread died
            t.exc = e
        finally:
            if self.trace_files:
                sys.settrace(None)
        t.finished = True
        if not self.aborting:
            self.events.append(("exit", t.name, type(t.exc).__name__ if t.exc is not None else None))
            if self._prologue:
                self.current = None
                self._done.release()
                return
            try:
                self._decide(t)
            except SchedAbort:
                pass

    def _tracer(self, frame, event, arg):
        if event == "call" and frame.f_code.co_filename in self.trace_files:
            return self._line
        return None

    def _line(self, frame, event, arg):
        if event == "line" and not self.aborting:
            self.point(K_ALWAYS, None, "line")
        return self._line

    # ------------------------------------------------------------------ run
    def run(self):
        global _ACTIVE
        if not self.threads:
            raise SchedError("no threads")
        hung = False
        try:
            self.running = True
            for t in self.threads:
                self._start_real(t)
            # Thread start: every thread first runs, alone and in id order, up to its first scheduling point
            # (code before it is thread-local), so the start order itself is not a branching dimension; from
            # then on the first operation of every thread competes with everything else.
            self._prologue = True
            i = 0
            while i < len(self.threads) and not hung:
                t = self.threads[i]
                i += 1
                self.current = t
                t.baton.release()
                if not self._done.acquire(timeout=WALL_GUARD):
                    hung = True
            self._prologue = False
            if not hung:
                self._decide(None)
                if not self._done.acquire(timeout=WALL_GUARD):
                    hung = True
        finally:
            self.aborting = True
            stuck = []
            for t in list(self.threads):
                w = t.real
                if w is None:
                    continue
                try:
                    t.baton.release()
                except RuntimeError:
                    pass
                if w.fin.acquire(timeout=30.0):  # the managed function has completely unwound
                    _POOL.append(w)
                else:
                    stuck.append(t.name)  # the worker is abandoned (daemon) and never reused
            self.running = False
            if _ACTIVE is self:
                _ACTIVE = None
            if stuck:
                raise SchedError("execution cannot be torn down, threads still alive: %s" % stuck)
        if hung:
            raise SchedError("execution did not end within the wall-clock guard (harness hang)")
        if self.error is not None:
            raise self.error
        return self


# ---------------------------------------------------------------------- cooperative primitives

def _sched_of(obj):
    s = obj._s
    if s is not None and s.running:
        return s
    return None


class Lock:
    """Replacement for threading.Lock."""

    def __init__(self):
        self._s = _ACTIVE
        self._locked = False

    def _free_for(self, t):
        return not self._locked

    def acquire(self, blocking=True, timeout=-1):
        s = _sched_of(self)
        if s is None:  # outside a controlled execution: zero-time semantics
            if self._locked:
                if blocking and (timeout is None or timeout < 0):
                    raise SchedError("Lock.acquire would block forever outside a controlled execution")
                return False
            self._locked = True
            return True
        if not blocking or timeout == 0:
            s.point(K_ALWAYS, None, "lock.try")
            if self._locked:
                return False
        else:
            if not s.point(K_LOCK, self, "lock.acquire", timeout if (timeout is not None and timeout > 0) else None):
                return False
        self._locked = True
        return True

    def release(self):
        s = _sched_of(self)
        if s is not None:
            s.point(K_ALWAYS, None, "lock.release")
        if not self._locked:
            raise RuntimeError("release unlocked lock")
        self._locked = False

    def locked(self):
        s = _sched_of(self)
        if s is not None:
            s.point(K_ALWAYS, None, "lock.locked")
        return self._locked

    def __enter__(self):
        self.acquire()
        return True

    def __exit__(self, *a):
        self.release()


class RLock:
    """Replacement for threading.RLock."""

    def __init__(self):
        self._s = _ACTIVE
        self._owner = None
        self._count = 0

    def _me(self):
        s = _sched_of(self)
        return s.current if s is not None else "main"

    def _free_for(self, t):
        return self._owner is None or self._owner is t

    def acquire(self, blocking=True, timeout=-1):
        s = _sched_of(self)
        if s is None:
            if self._owner not in (None, "main"):
                raise SchedError("RLock.acquire would block outside a controlled execution")
            self._owner = "main"
            self._count += 1
            return True
        if not blocking or timeout == 0:
            s.point(K_ALWAYS, None, "rlock.try")
            if not self._free_for(s.current):
                return False
        else:
            if not s.point(K_LOCK, self, "rlock.acquire", timeout if (timeout is not None and timeout > 0) else None):
                return False
        self._owner = s.current
        self._count += 1
        return True

    def release(self):
        s = _sched_of(self)
        if s is not None:
            s.point(K_ALWAYS, None, "rlock.release")
        if self._owner is not self._me():
            raise RuntimeError("cannot release un-acquired lock")
        self._count -= 1
        if self._count == 0:
            self._owner = None

    def __enter__(self):
        self.acquire()
        return True

    def __exit__(self, *a):
        self.release()


class Event:
    """Replacement for threading.Event."""

    def __init__(self):
        self._s = _ACTIVE
        self._flag = False

    def is_set(self):
        s = _sched_of(self)
        if s is not None:
            s.point(K_ALWAYS, None, "event.is_set")
        return self._flag

    def set(self):
        s = _sched_of(self)
        if s is not None:
            s.point(K_ALWAYS, None, "event.set")
        self._flag = True

    def clear(self):
        s = _sched_of(self)
        if s is not None:
            s.point(K_ALWAYS, None, "event.clear")
        self._flag = False

    def wait(self, timeout=None):
        s = _sched_of(self)
        if s is None:
            if not self._flag and timeout is None:
                raise SchedError("Event.wait would block forever outside a controlled execution")
            return self._flag
        if timeout is not None and timeout <= 0:
            s.point(K_ALWAYS, None, "event.poll")
            return self._flag
        return s.point(K_EVENT, self, "event.wait", timeout)


class Queue:
    """Replacement for queue.Queue (FIFO)."""

    def __init__(self, maxsize=0):
        self._s = _ACTIVE
        self.maxsize = maxsize
        self._items = deque()
        self._unfinished = 0

    def _peek(self, label):
        s = _sched_of(self)
        if s is not None:
            s.point(K_ALWAYS, None, label)   # reading shared state is a scheduling point too

    def qsize(self):
        self._peek("queue.qsize")
        return len(self._items)

    def empty(self):
        self._peek("queue.empty")
        return not self._items

    def full(self):
        self._peek("queue.full")
        return 0 < self.maxsize <= len(self._items)

    def _full(self):
        return 0 < self.maxsize <= len(self._items)

    def put(self, item, block=True, timeout=None):
        s = _sched_of(self)
        if timeout is not None and timeout < 0:
            raise ValueError("'timeout' must be a non-negative number")
        if s is None:
            if self._full():
                if block and timeout is None:
                    raise SchedError("Queue.put would block forever outside a controlled execution")
                raise Full
        elif not block or (timeout is not None and timeout == 0):
            s.point(K_ALWAYS, None, "queue.put_nowait")
            if self._full():
                raise Full
        else:
            if not s.point(K_PUT, self, "queue.put", timeout):
                raise Full
        self._items.append(item)
        self._unfinished += 1

    def get(self, block=True, timeout=None):
        s = _sched_of(self)
        if timeout is not None and timeout < 0:
            raise ValueError("'timeout' must be a non-negative number")
        if s is None:
            if not self._items:
                if block and timeout is None:
                    raise SchedError("Queue.get would block forever outside a controlled execution")
                raise Empty
        elif not block or (timeout is not None and timeout == 0):
            s.point(K_ALWAYS, None, "queue.get_nowait")
            if not self._items:
                raise Empty
        else:
            if not s.point(K_GET, self, "queue.get", timeout):
                raise Empty
        return self._items.popleft()

    def put_nowait(self, item):
        return self.put(item, block=False)

    def get_nowait(self):
        return self.get(block=False)

    def task_done(self):
        if self._unfinished <= 0:
            raise ValueError("task_done() called too many times")
        self._unfinished -= 1

    def join(self):
        s = _sched_of(self)
        if s is None:
            if self._unfinished:
                raise SchedError("Queue.join would block forever outside a controlled execution")
            return
        s.point(K_PRED, lambda: self._unfinished == 0, "queue.join")


class Thread:
    """Replacement for threading.Thread (threads started by the program under test)."""

    def __init__(self, group=None, target=None, name=None, args=(), kwargs=None, daemon=None):
        self._target = target
        self._args = args
        self._kwargs = kwargs or {}
        self.name = name or "thread"
        self.daemon = bool(daemon)
        self._t = None

    def run(self):
        if self._target is not None:
            self._target(*self._args, **self._kwargs)

    def start(self):
        if self._t is not None:
            raise RuntimeError("threads can only be started once")
        s = _ACTIVE
        if s is None:
            raise SchedError("cooperative Thread started outside a controlled execution")
        self._s = s
        if s.running:
            s.point(K_ALWAYS, None, "thread.start")
        self._t = s.spawn(self.name, self.run, service=s.dynamic_service)

    def join(self, timeout=None):
        if self._t is None:
            raise RuntimeError("cannot join thread before it is started")
        s = self._s
        if not s.running:
            if not self._t.finished:
                raise SchedError("Thread.join outside a controlled execution")
            return
        s.point(K_JOIN, self._t, "thread.join", timeout)

    def is_alive(self):
        return self._t is not None and not self._t.finished


class ModuleShim:
    """Stands in for `import queue` / `import threading` inside a module under test."""

    def __init__(self, real, **names):
        self.__dict__["_real"] = real
        self.__dict__.update(names)

    def __getattr__(self, name):
        v = getattr(self._real, name)
        if isinstance(v, type) and not issubclass(v, BaseException):
            raise SchedError("module under test uses %s.%s, which has no cooperative replacement"
                             % (self._real.__name__, name))
        return v


def queue_shim():
    return ModuleShim(_queue, Queue=Queue, Empty=Empty, Full=Full)


def threading_shim():
    return ModuleShim(_threading, Lock=Lock, RLock=RLock, Event=Event, Thread=Thread)


def rebind(module):
    """Rebind queue/threading names in `module` to the cooperative versions.

    Returns {name: original}.  Any other class from queue/threading found in the module
    namespace is a harness error (real time could run)."""
    import types
    table = {_queue.Queue: Queue, _threading.Thread: Thread, _threading.Event: Event}
    saved = {}
    for name, val in list(vars(module).items()):
        new = None
        if val is _queue:
            new = queue_shim()
        elif val is _threading:
            new = threading_shim()
        elif val is _threading.Lock:
            new = Lock
        elif val is _threading.RLock:
            new = RLock
        elif isinstance(val, type) and val in table:
            new = table[val]
        elif val in (Queue, Lock, RLock, Event, Thread) or isinstance(val, ModuleShim):
            continue
        elif isinstance(val, types.BuiltinFunctionType) and getattr(val, "__module__", "") in ("_thread", "time") \
                and name in ("sleep", "allocate_lock"):
            raise SchedError("%s uses %s, which has no cooperative replacement" % (module.__name__, name))
        elif isinstance(val, type) and getattr(val, "__module__", "") in ("queue", "threading", "_queue", "_thread") \
                and not issubclass(val, BaseException):
            raise SchedError("%s uses %s.%s, which has no cooperative replacement"
                             % (module.__name__, val.__module__, val.__name__))
        if new is not None:
            saved[name] = val
            setattr(module, name, new)
    return saved


def restore(module, saved):
    for name, val in saved.items():
        setattr(module, name, val)


# ---------------------------------------------------------------------- explorer

class Execution:
    __slots__ = ("end", "cost", "preemptions", "timeouts", "npoints", "ndecisions", "nswitches", "trace",
                 "events", "threads", "harness", "now")

    def choices(self):
        return [e[0] for e in self.trace]

    def prefix(self):
        return [(e[0], e[3]) for e in self.trace]


class Explorer:
    """Depth-first enumeration of the schedules of `program` within a cost bound.

    `program(sched)` builds the program on a fresh scheduler (spawns threads) and returns a
    harness object that is handed back in `Execution.harness`."""

    def __init__(self, program, timeout_cost=1, max_points=20000, trace_files=()):
        self.program = program
        self.timeout_cost = timeout_cost
        self.max_points = max_points
        self.trace_files = trace_files
        self.executions = 0
        self.points = 0
        self.decisions = 0

    def run_one(self, prefix=(), bound=None, lenient=False):
        global _ACTIVE
        s = Scheduler(prefix, bound, self.timeout_cost, self.max_points, self.trace_files, lenient)
        if _ACTIVE is not None:
            raise SchedError("nested controlled executions")
        _ACTIVE = s
        try:
            h = self.program(s)
            s.run()
        finally:
            _ACTIVE = None
        ex = Execution()
        ex.end = s.end
        ex.cost = s.cost
        ex.preemptions = s.preemptions
        ex.timeouts = s.timeouts
        ex.npoints = s.npoints
        ex.nswitches = s.nswitches
        ex.ndecisions = len(s.trace)
        ex.trace = s.trace
        ex.events = s.events
        ex.now = s.now
        ex.threads = [(t.name, t.finished and not t.aborted, t.exc, t.service, t.label) for t in s.threads]
        ex.harness = h
        self.executions += 1
        self.points += s.npoints
        self.decisions += len(s.trace)
        return ex

    def dfs(self, bound):
        """All executions of cost <= bound, simplest (default schedule) first."""
        prefix = []
        while True:
            ex = self.run_one(prefix, bound)
            if len(ex.trace) < len(prefix):
                raise SchedError("replay diverged: execution ended after %d of %d recorded decisions"
                                 % (len(ex.trace), len(prefix)))
            yield ex
            tr = ex.trace
            k = len(tr) - 1
            j = 0
            while k >= 0:
                idx, n, costs, fp, before = tr[k]
                j = idx + 1
                while j < n and before + costs[j] > bound:
                    j += 1
                if j < n:
                    break
                k -= 1
            if k < 0:
                return
            prefix = [(e[0], e[3]) for e in tr[:k]] + [(j, tr[k][3])]

    def explore(self, max_bound, min_bound=0):
        """Iterative bounding: yields (bound, execution) for bound = min_bound..max_bound; at bound b only
        the executions of cost exactly b are yielded (cheaper ones were yielded before), plus the executions
        pruned at the final bound."""
        for b in range(min_bound, max_bound + 1):
            for ex in self.dfs(b):
                if ex.end == "pruned":
                    if b == max_bound:
                        yield b, ex
                elif ex.cost == b or b == min_bound:
                    yield b, ex

    def replay(self, choices, lenient=False):
        """Re-run one schedule given as a list of indices (or (index, fingerprint) pairs).

        lenient=True is for witnesses recorded on different code: indices are clamped to the options that
        exist and a shorter execution is accepted (the nearest schedule), instead of raising SchedError."""
        prefix = []
        for c in choices:
            if isinstance(c, (tuple, list)):
                prefix.append((int(c[0]), c[1]))
            else:
                prefix.append((int(c), None))
        ex = self.run_one(prefix, None, lenient)
        if len(ex.trace) < len(prefix) and not lenient:
            raise SchedError("replay diverged: execution ended after %d of %d recorded decisions"
                             % (len(ex.trace), len(prefix)))
        return ex

    def confirm(self, ex, observe):
        """Replay `ex` twice; both replays must give observe(replay) == observe(ex)."""
        want = observe(ex)
        for i in range(2):
            r = self.replay(ex.prefix())
            got = observe(r)
            if got != want or r.choices()[:len(ex.trace)] != ex.choices():
                raise SchedError("failing schedule did not reproduce on replay %d: %r != %r" % (i + 1, got, want))
        return True
